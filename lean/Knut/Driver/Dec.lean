import Knut.Wire
import Knut.Basic.Dec
/-! Driver ops for decimal arithmetic (shared by C10, C12, C17 …): every operand is a hex-encoded
decimal string as Go's `Decimal.String()` prints it; results are decimal strings. -/
namespace Knut.Driver.Dec
open Knut Knut.Wire Knut.Dec

def arg (s : String) : Option Rat := (unhexStr s).bind parseDec

def handle (fields : List String) : Option String :=
  match fields with
  | ["dec-show", x] => some (match arg x with | some r => showDec r | none => "error")
  | ["dec-trunc", n, x] => some (match n.toNat?, arg x with | some n, some r => showDec (trunc n r) | _, _ => "error")
  | ["dec-round", n, x] => some (match n.toInt?, arg x with | some n, some r => showDec (roundPlaces n r) | _, _ => "error")
  | ["dec-fixed", n, x] => some (match n.toInt?, arg x with | some n, some r => showFixed n r | _, _ => "error")
  | ["dec-div", a, b] => some (match arg a, arg b with
      | some a, some b => if b = 0 then "panic" else showDec (div16 a b)
      | _, _ => "error")
  | ["dec-mul", a, b] => some (match arg a, arg b with | some a, some b => showDec (a * b) | _, _ => "error")
  | ["dec-add", a, b] => some (match arg a, arg b with | some a, some b => showDec (a + b) | _, _ => "error")
  | ["dec-quorem", a, b, p] => some (match arg a, arg b, p.toNat? with
      | some a, some b, some p => (match quoRem a b p with
          | some (q, r) => showDec q ++ " " ++ showDec r
          | none => "panic")
      | _, _, _ => "error")
  | _ => none

end Knut.Driver.Dec
