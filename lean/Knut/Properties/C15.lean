import Knut.Proofs.InferTree
import Knut.Proofs.InferArgmax
/-!
# C15 — infer edits only the placeholder account

`knut infer -a PLACEHOLDER -t TRAINING TARGET`. Model: `Knut/Model/Infer.lean` (`train` = `inferRunner.train` +
`bayes.Model.Update`, `Model.inferBooking` = the loop body of `bayes.Model.Infer`, `inferFormat` = `parseAndInfer` +
`syntax.FormatFile`, `inferCmd` = `inferRunner.execute`). Every theorem holds **for every score function and every
comparison** (`sc : Scorer S`, any `S`): the float arithmetic of `scoreCandidate` plays no role in them.

`BookingV` are the four extracted fields of a booking, `DirV` those of a directive; `trainingAccounts placeholder txs`
lists the credit and debit accounts of the training bookings that use no macro account, have non-empty names and do not
touch the placeholder (`Spec/InferSpec.lean`), and `viewsOK` is the predicate the monitor evaluates on the real output.
-/
namespace Knut.C15
open Knut Knut.Syntax Knut.Infer Knut.Spec.Infer Knut.Spec.Syntax

variable {S : Type} (sc : Scorer S)

/-! ### facts about a trained model -/

/-- the keys of `countByAccount` after training are the learnable accounts of the training transactions -/
theorem C15_keys_are_training_accounts (placeholder : Bytes) (txs : List TTx) (a : Bytes) :
    a ∈ (train placeholder txs).countByAccount.keys ↔ a ∈ trainingAccounts placeholder txs :=
  mem_keys_train placeholder txs a

theorem C15_no_empty_key (placeholder : Bytes) (txs : List TTx) : [] ∉ (train placeholder txs).countByAccount.keys := by
  intro h
  obtain ⟨_, _, _, _, _, _, _, _, _, h1, _⟩ := trainingAccounts_spec ((mem_keys_train _ _ _).mp h)
  exact h1 rfl

theorem C15_no_placeholder_key (placeholder : Bytes) (txs : List TTx) : placeholder ∉ (train placeholder txs).countByAccount.keys := by
  intro h
  obtain ⟨_, _, _, _, _, _, _, _, _, _, h2⟩ := trainingAccounts_spec ((mem_keys_train _ _ _).mp h)
  exact h2 rfl

/-! ### only the placeholder account is edited -/

/-- **only booking account fields whose text was the placeholder change**: `Infer` leaves quantity and commodity of
every booking alone, and an account field that is not the placeholder keeps its text. -/
theorem C15_only_placeholder (placeholder : Bytes) (txs : List TTx) (desc : Bytes) (b : BookingV) :
    let b' := (train placeholder txs).inferBooking sc desc b
    b'.quantity = b.quantity ∧ b'.commodity = b.commodity ∧
    (b.credit ≠ placeholder → b'.credit = b.credit) ∧ (b.debit ≠ placeholder → b'.debit = b.debit) := by
  have h := inferBooking_spec sc (train placeholder txs) desc b (C15_no_empty_key placeholder txs)
  rw [train_account] at h
  exact ⟨h.quantity, h.commodity, h.credit_other, h.debit_other⟩

/-- **nothing but bookings of transactions is touched**: every other directive keeps all its fields; a transaction keeps
its annotations, date and description and the number of its bookings. -/
theorem C15_only_bookings (m : Model) (d : DirV) :
    (∀ accr perf date desc bs, d = .transaction accr perf date desc bs →
      m.inferDir sc d = .transaction accr perf date desc (bs.map (m.inferBooking sc desc))) ∧
    ((∀ accr perf date desc bs, d ≠ .transaction accr perf date desc bs) → m.inferDir sc d = d) := by
  constructor
  · intro accr perf date desc bs h; subst h; rfl
  · intro h
    cases d with
    | transaction accr perf date desc bs => exact absurd rfl (h accr perf date desc bs)
    | _ => rfl

/-! ### the replacement comes from the training data and differs from the other account -/

/-- **each replacement occurs in the training journal**: a changed account field holds a learnable account, i.e. the
credit or debit account of a booking of a training transaction whose accounts are not macros and not the placeholder;
it is neither empty nor the placeholder. -/
theorem C15_candidate_from_training (placeholder : Bytes) (txs : List TTx) (desc : Bytes) (b : BookingV) :
    let b' := (train placeholder txs).inferBooking sc desc b
    ∀ a, (a = b'.credit ∧ b'.credit ≠ b.credit) ∨ (a = b'.debit ∧ b'.debit ≠ b.debit) →
      a ∈ trainingAccounts placeholder txs ∧
      ∃ t ∈ txs, ∃ tb ∈ t.bookings, (a = tb.v.credit ∨ a = tb.v.debit) ∧ tb.creditMacro = false ∧ tb.debitMacro = false ∧
        tb.v.credit ≠ placeholder ∧ tb.v.debit ≠ placeholder ∧ a ≠ [] ∧ a ≠ placeholder := by
  intro b' a ha
  have h := inferBooking_spec sc (train placeholder txs) desc b (C15_no_empty_key placeholder txs)
  have hk : a ∈ (train placeholder txs).countByAccount.keys := by
    rcases ha with ⟨rfl, hne⟩ | ⟨rfl, hne⟩
    · rcases h.credit_cases with e | ⟨_, e, _⟩
      · exact absurd e hne
      · exact e
    · rcases h.debit_cases with e | ⟨_, e, _⟩
      · exact absurd e hne
      · exact e
  have := (mem_keys_train placeholder txs a).mp hk
  exact ⟨this, trainingAccounts_spec this⟩

/-- **each replacement differs from the other account of the booking**: the new credit account differs from the debit
account it was inferred against and from the debit account of the result; the new debit account differs from the
(possibly new) credit account. A booking that was edited never has the same account on both sides. -/
theorem C15_differs_from_other (placeholder : Bytes) (txs : List TTx) (desc : Bytes) (b : BookingV) :
    let b' := (train placeholder txs).inferBooking sc desc b
    (b'.credit ≠ b.credit → b'.credit ≠ b.debit ∧ b'.credit ≠ b'.debit) ∧
    (b'.debit ≠ b.debit → b'.debit ≠ b'.credit) := by
  intro b'
  have h := inferBooking_spec sc (train placeholder txs) desc b (C15_no_empty_key placeholder txs)
  constructor
  · intro hne
    rcases h.credit_cases with e | ⟨_, _, e, _⟩
    · exact absurd e hne
    · refine ⟨e, ?_⟩
      rcases h.debit_cases with e2 | ⟨_, _, e2, _⟩
      · show b'.credit ≠ b'.debit
        rw [e2]; exact e
      · exact fun x => e2 x.symm
  · intro hne
    rcases h.debit_cases with e | ⟨_, _, e, _⟩
    · exact absurd e hne
    · exact e

/-- **no candidate ⇒ unchanged**: if the training data offers no account other than the debit account, the credit field
is left as it was; if it offers none other than the (possibly new) credit account, the debit field is left as it was.
In particular a model trained on nothing changes nothing. -/
theorem C15_no_candidate_unchanged (placeholder : Bytes) (txs : List TTx) (desc : Bytes) (b : BookingV) :
    let b' := (train placeholder txs).inferBooking sc desc b
    ((∀ a ∈ trainingAccounts placeholder txs, a = b.debit) → b'.credit = b.credit) ∧
    ((∀ a ∈ trainingAccounts placeholder txs, a = b'.credit) → b'.debit = b.debit) := by
  intro b'
  have h := inferBooking_spec sc (train placeholder txs) desc b (C15_no_empty_key placeholder txs)
  exact ⟨fun hc => h.credit_kept fun k hk => hc k ((mem_keys_train _ _ _).mp hk),
         fun hc => h.debit_kept fun k hk => hc k ((mem_keys_train _ _ _).mp hk)⟩

/-- **a candidate ⇒ replaced**: a placeholder field is replaced whenever the training data offers an account other than
the other account of the booking (the first candidate always beats `-Inf`). -/
theorem C15_candidate_replaced (placeholder : Bytes) (txs : List TTx) (desc : Bytes) (b : BookingV) :
    let b' := (train placeholder txs).inferBooking sc desc b
    (b.credit = placeholder → (∃ a ∈ trainingAccounts placeholder txs, a ≠ b.debit) →
      b'.credit ∈ trainingAccounts placeholder txs ∧ b'.credit ≠ placeholder) ∧
    (b.debit = placeholder → (∃ a ∈ trainingAccounts placeholder txs, a ≠ b'.credit) →
      b'.debit ∈ trainingAccounts placeholder txs ∧ b'.debit ≠ placeholder) := by
  intro b'
  have h := inferBooking_spec sc (train placeholder txs) desc b (C15_no_empty_key placeholder txs)
  rw [train_account] at h
  have hp : ∀ a, a ∈ (train placeholder txs).countByAccount.keys → a ≠ placeholder :=
    fun a ha e => C15_no_placeholder_key placeholder txs (e ▸ ha)
  constructor
  · intro h1 ⟨a, ha, hne⟩
    have := (h.credit_new h1 ⟨a, (mem_keys_train _ _ _).mpr ha, hne⟩).1
    exact ⟨(mem_keys_train _ _ _).mp this, hp _ this⟩
  · intro h1 ⟨a, ha, hne⟩
    have := (h.debit_new h1 ⟨a, (mem_keys_train _ _ _).mpr ha, hne⟩).1
    exact ⟨(mem_keys_train _ _ _).mp this, hp _ this⟩

/-- **which account is chosen**: when the comparison is the strict part of a total preorder (`>` on the finite floats the
code computes; `>` on the exact scores, `exactScorer_order`), the inferred account is a best-scoring candidate and the
one with the smallest name among the best-scoring ones. This tie-break is what makes the choice independent of the map
order. -/
theorem C15_choice_is_argmax (ho : sc.Order) (m : Model) {desc : Bytes} {b : BookingV} {other a : Bytes}
    (h : m.inferAccount sc desc b other = some a) :
    ∀ c ∈ m.countByAccount.keys, c ≠ other →
      sc.gt (m.scoreCandidate sc c (tokenize desc b.commodity b.quantity other))
            (m.scoreCandidate sc a (tokenize desc b.commodity b.quantity other)) = false ∧
      (bytesLt c a = true →
        sc.gt (m.scoreCandidate sc a (tokenize desc b.commodity b.quantity other))
              (m.scoreCandidate sc c (tokenize desc b.commodity b.quantity other)) = true) :=
  inferAccount_argmax sc m ho h

/-- **the monitor predicate holds of the model**: the fields of the output are related to the fields of the target by
`viewsOK`, the predicate evaluated on the real output of every generated case, for any enumeration of the learnable
accounts. -/
theorem C15_viewsOK (placeholder : Bytes) (txs : List TTx) (training : List Bytes)
    (ht : ∀ a, a ∈ training ↔ a ∈ trainingAccounts placeholder txs) (vs : List DirV) :
    viewsOK placeholder training vs (vs.map ((train placeholder txs).inferDir sc)) = true := by
  have := viewsOK_map sc (train placeholder txs) (training := training) (C15_no_empty_key placeholder txs)
    (fun a => by rw [ht, mem_keys_train]) vs
  rwa [train_account] at this

/-! ### determinism -/

/-- **the choice is the same on every run (training order)**: the files of the training journal arrive in an order the
scheduler picks; any permutation of the training transactions gives the same inferred accounts and the same output. -/
theorem C15_deterministic (placeholder : Bytes) {txs₁ txs₂ : List TTx} (h : txs₁.Perm txs₂) (text : Bytes) (f : File) :
    inferFormat sc (train placeholder txs₁) text f = inferFormat sc (train placeholder txs₂) text f := by
  unfold inferFormat
  rw [(train_perm h).inferDir sc]

/-- **… for the whole command**: the training files in any arrival order give the same outcome (same rejection, same
bytes written). -/
theorem C15_deterministic_files (placeholder : Bytes) {training₁ training₂ : List (String × Bytes)} (h : training₁.Perm training₂)
    (path : String) (target : Bytes) :
    inferCmd sc placeholder training₁ path target = inferCmd sc placeholder training₂ path target := by
  unfold inferCmd
  rcases mapM_perm (fun pt : String × Bytes => (parseText pt.1 pt.2).toOption.map fun f => (pt.2, f)) h with
    ⟨h1, h2⟩ | ⟨fs₁, fs₂, h1, h2, hp⟩
  · rw [h1, h2]
  · rw [h1, h2]
    simp only
    rcases mapM_perm (fun tf : Bytes × File => fileTxs tf.1 tf.2) hp with ⟨h3, h4⟩ | ⟨t₁, t₂, h3, h4, hq⟩
    · rw [h3, h4]
    · rw [h3, h4]
      simp only
      cases parseText path target with
      | error e => rfl
      | ok f => simp only; rw [C15_deterministic sc placeholder hq.flatten target f]

/-- … and so does every single decision -/
theorem C15_deterministic_booking (placeholder : Bytes) {txs₁ txs₂ : List TTx} (h : txs₁.Perm txs₂) (desc : Bytes) (b : BookingV) :
    (train placeholder txs₁).inferBooking sc desc b = (train placeholder txs₂).inferBooking sc desc b :=
  (train_perm h).inferBooking sc desc b

/-- **the choice is the same on every run (map iteration order)**: `Model.update` ranges over the token *set*; walking
it in any order `walk` gives count tables inference cannot tell apart (`Model.Equiv`: same `count`, same
`countByAccount`, same `countByTokenAndAccount[t][a]` for all `t`, `a`), … -/
theorem C15_token_walk_irrelevant {m : Model} {evs : List Event} (hm : Agrees m evs) (desc : Bytes) (b : BookingV)
    (account other : Bytes) (walk : List Bytes) (hw : walk.Nodup)
    (hmem : ∀ t, t ∈ walk ↔ t ∈ tokenize desc b.commodity b.quantity other) :
    (m.updateWith account walk).Equiv (m.update desc b account other) :=
  (hm.updateWith account _ walk hw hmem).equiv (hm.update desc b account other) (List.Perm.refl _) rfl

/-- … and models that inference cannot tell apart infer the same accounts: the candidates are visited in sorted order
(`dict.SortedKeys`), so the enumeration order of `countByAccount` does not matter either. -/
theorem C15_equiv_same_choice {m₁ m₂ : Model} (h : m₁.Equiv m₂) (desc : Bytes) (b : BookingV) :
    m₁.inferBooking sc desc b = m₂.inferBooking sc desc b := h.inferBooking sc desc b

/-- the trained tables are plain counts over the multiset of `update` calls (the reason for the two theorems above) -/
theorem C15_tables_are_counts (placeholder : Bytes) (txs : List TTx) :
    Agrees (train placeholder txs) (events placeholder txs) := agrees_train placeholder txs

/-! ### the output is the formatted input with the account texts replaced -/

/-- **output = format of the input tree with those account texts replaced**: `inferFormat` is the formatter
(`formatWith`: extract the fields, compute the padding, copy the gaps, render) run on the edited fields, and the
formatter itself is `formatWith` without edit. -/
theorem C15_output_is_format_modulo_accounts (m : Model) (text : Bytes) (f : File) :
    inferFormat sc m text f = formatWith (m.inferDir sc) text f ∧ format text f = formatWith id text f :=
  ⟨rfl, (formatWith_id text f).symm⟩

/-- … spelled out: output and formatted input consist of the same gaps (the text between the directives of the input,
byte for byte); the directives in between are rendered from fields `ws` resp. `vs` that are related by `viewsOK`
(equal except placeholder account fields of bookings), each side with the padding its own account fields imply. -/
theorem C15_output_shape (placeholder : Bytes) (txs : List TTx) (text : Bytes) (f : File) (out : Bytes)
    (h : inferFormat sc (train placeholder txs) text f = some out) :
    ∃ vs ws fmt, f.directives.mapM (viewDirective text) = some vs ∧
      ws = vs.map ((train placeholder txs).inferDir sc) ∧
      viewsOK placeholder (trainingAccounts placeholder txs) vs ws = true ∧
      format text f = some fmt ∧
      fmt = interleave (gapsOf text 0 (f.directives.map (·.range))) (vs.map (renderDir (paddingOf vs))) ∧
      out = interleave (gapsOf text 0 (f.directives.map (·.range))) (ws.map (renderDir (paddingOf ws))) := by
  obtain ⟨vs, hv, hout⟩ := formatWith_shape h
  have hs : (format text f).isSome = true := by
    rw [← formatWith_isSome ((train placeholder txs).inferDir sc) text f]
    unfold inferFormat at h; rw [h]; rfl
  obtain ⟨fmt, hf⟩ := Option.isSome_iff_exists.mp hs
  have hf' := hf
  rw [← formatWith_id] at hf'
  obtain ⟨vs', hv', hfmt⟩ := formatWith_shape hf'
  rw [hv] at hv'
  injection hv' with hv'
  subst hv'
  simp only [List.map_id] at hfmt
  exact ⟨vs, _, fmt, hv, rfl, C15_viewsOK sc placeholder txs _ (fun _ => Iff.rfl) vs, hf, hfmt, hout⟩

/-- **infer adds no failure of its own**: it reaches a slice-bounds panic exactly when formatting the untouched tree
does (which C07/C08 exclude for a tree the parser returned). -/
theorem C15_no_new_panic (m : Model) (text : Bytes) (f : File) :
    (inferFormat sc m text f).isSome = (format text f).isSome := formatWith_isSome _ text f

/-! ### where the written account texts come from

**The result parses** (`C15_output_parses`), **is the formatted input apart from the inferred accounts**
(`C15_output_is_formatted_input_modulo_accounts`) and **is a fixed point of `infer` and of `format`**
(`C15_idempotent_after`): see `Properties/C15Parse.lean`. The part of that argument that is specific to infer is the
following theorem: the text put into an account field is the text of an account the parser accepted in a training
file. -/

/-- every account text `infer` writes is the text (`Range.Extract`) of a non-macro credit or debit `Account` node of a
booking of a transaction in one of the parsed training files, and is not empty -/
theorem C15_written_account_is_training_node (placeholder : Bytes) (files : List (Bytes × File)) (txss : List (List TTx))
    (hfiles : files.mapM (fun tf => fileTxs tf.1 tf.2) = some txss) (desc : Bytes) (b : BookingV) :
    let b' := (train placeholder txss.flatten).inferBooking sc desc b
    ∀ a, (a = b'.credit ∧ b'.credit ≠ b.credit) ∨ (a = b'.debit ∧ b'.debit ≠ b.debit) →
      a ≠ [] ∧ ∃ tf ∈ files, ∃ d ∈ tf.2.directives, ∃ tr, d.body = .transaction tr ∧ ∃ bk ∈ tr.bookings,
        (bk.credit.range.extract tf.1 = some a ∧ bk.credit.isMacro = false) ∨
        (bk.debit.range.extract tf.1 = some a ∧ bk.debit.isMacro = false) := by
  intro b' a ha
  obtain ⟨_, t, ht, tb, htb, h1, h2, h3, _, _, h4, _⟩ := C15_candidate_from_training sc placeholder txss.flatten desc b a ha
  obtain ⟨txs, htxs, ht'⟩ := List.mem_flatten.mp ht
  obtain ⟨tf, htf, hftx⟩ := mapM_mem _ _ _ hfiles txs htxs
  obtain ⟨d, hd, tr, hbody, bk, hbk, e1, e2, m1, m2⟩ := fileTxs_mem hftx ht' htb
  refine ⟨h4, tf, htf, d, hd, tr, hbody, bk, hbk, ?_⟩
  rcases h1 with e | e
  · exact Or.inl ⟨by rw [e]; exact e1, by rw [← m1]; exact h2⟩
  · exact Or.inr ⟨by rw [e]; exact e2, by rw [← m2]; exact h3⟩

/-! ### non-vacuity -/

section Examples

def bank : Bytes := [66]   -- "B"
def food : Bytes := [70]   -- "F"
def tbd : Bytes := [84]    -- "T"
def exTx : TTx := ⟨[109], [⟨false, false, ⟨bank, food, [49], [67]⟩⟩]⟩

example : trainingAccounts tbd [exTx] = [bank, food] := by decide

/-- a placeholder on the debit side of a booking from `bank` is replaced by `food`, whatever the score function -/
theorem ex_debit_food (desc : Bytes) : ((train tbd [exTx]).inferBooking sc desc ⟨bank, tbd, [49], [67]⟩).debit = food := by
  have h := (C15_candidate_replaced sc tbd [exTx] desc ⟨bank, tbd, [49], [67]⟩).2 rfl
  have hc := (C15_only_placeholder sc tbd [exTx] desc ⟨bank, tbd, [49], [67]⟩).2.2.1 (by decide)
  simp only at hc
  have h2 := (C15_differs_from_other sc tbd [exTx] desc ⟨bank, tbd, [49], [67]⟩).2
  rw [hc] at h
  have h3 := h ⟨food, by decide, by decide⟩
  have hm : ∀ a, a ∈ trainingAccounts tbd [exTx] → a = bank ∨ a = food := by
    intro a ha
    have : trainingAccounts tbd [exTx] = [bank, food] := by decide
    rw [this] at ha
    simpa using ha
  rcases hm _ h3.1 with e | e
  · exfalso
    have hne : ((train tbd [exTx]).inferBooking sc desc ⟨bank, tbd, [49], [67]⟩).debit ≠ tbd := h3.2
    have := h2 (by simpa using hne)
    rw [hc] at this
    exact this e
  · exact e

/-- with nothing learnable the booking is left alone -/
example (desc : Bytes) (b : BookingV) : (train tbd []).inferBooking sc desc b = b := by
  have h1 := C15_only_placeholder sc tbd [] desc b
  have h2 := C15_no_candidate_unchanged sc tbd [] desc b
  simp only at h1 h2
  have hc := h2.1 (by intro a ha; simp [trainingAccounts] at ha)
  have hd := h2.2 (by intro a ha; simp [trainingAccounts] at ha)
  cases b
  cases h : (train tbd []).inferBooking sc desc _
  simp_all

end Examples

end Knut.C15
