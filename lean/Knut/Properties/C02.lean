import Knut.Proofs.Balance
import Knut.Spec.Ledger
/-!
# C02 — Balance report equals an independent ledger computation

`Spec.ledgerEntries` (Spec/Ledger.lean) states what the report is made of without reference to the
pipeline: window bookings (mapped, filtered, aligned) plus, with closing, the transfer of every
income/expense/equity total to `Equity:Equity` at each shown period start.  The rendered report is a
function of the multiset of entries (`BalanceReport.table`).

Proved here, for all journals and all flag combinations (filters, mappings incl. level 0 and suffixes,
remap, windows, intervals, `--last`, `--diff`):

* `C02_noclose` – without period closing the pipeline's report inserts are **exactly** the ledger's
  entries (same list), hence the same report, cell by cell;
* `C02_unmapped_untouched`, `C02_hidden_only_in_delta` – mapping clauses, stated on the entries;
* `C02_cumulative_cell` – a cumulative cell is the sum of the entries whose column is not later.

With closing the statement is `entries ~ Spec.ledgerEntries cfg days` (as multisets): `C02_close` in
`Properties/C02Close.lean` (with `C02_closing_day`, `C02_close_invariant`).  `C02_closing_partial` below is its
key arithmetic step.  The monitor `report_equals_ledger` additionally compares the real output with the
specification's rendering on every run.
-/
namespace Knut.C02
open Knut Knut.Spec

/-- every transaction is stored under its own date (what `Builder.add` guarantees) -/
def DaysConsistent (days : List Day) : Prop := ∀ d ∈ days, ∀ t ∈ d.transactions, t.date = d.date

theorem queryPosting_eq_entryOf (cfg : BalCfg) (hv : cfg.valuation = none) (t : Transaction) (p : Posting) :
    Balance.queryPosting cfg t p = entryOf cfg t.date p.account p.commodity p.quantity := by
  unfold Balance.queryPosting entryOf
  simp only [hv, Option.isSome_none, Bool.false_eq_true, if_false]
  split
  · cases mapAccount cfg p.account <;> rfl
  · rfl

/-- the ledger bookings of one day -/
def dayBookings (cfg : BalCfg) (d : Day) : List Entry :=
  (d.transactions.flatMap (fun t => t.postings.map (fun p => (t.date, p)))).filterMap (fun (dt, p) =>
    if cfg.span.contains dt then entryOf cfg dt p.account p.commodity p.quantity else none)

theorem bookingEntries_cons (cfg : BalCfg) (d : Day) (rest : List Day) :
    bookingEntries cfg (d :: rest) = dayBookings cfg d ++ bookingEntries cfg rest := by
  unfold bookingEntries datedPostings dayBookings
  simp [List.flatMap_cons, List.filterMap_append]

theorem filterMap_ext {α β : Type} {f g : α → Option β} : ∀ (l : List α), (∀ x ∈ l, f x = g x) → l.filterMap f = l.filterMap g
  | [], _ => rfl
  | x :: rest, h => by
    simp only [List.filterMap_cons, h x List.mem_cons_self]
    rw [filterMap_ext rest (fun y hy => h y (List.mem_cons_of_mem _ hy))]

/-- the ledger bookings of one transaction -/
def txBookings (cfg : BalCfg) (t : Transaction) : List Entry :=
  (t.postings.map (fun p => (t.date, p))).filterMap (fun (dt, p) =>
    if cfg.span.contains dt then entryOf cfg dt p.account p.commodity p.quantity else none)

theorem dayBookings_eq (cfg : BalCfg) (d : Day) : dayBookings cfg d = d.transactions.flatMap (txBookings cfg) := by
  unfold dayBookings txBookings
  generalize d.transactions = ts
  induction ts with
  | nil => rfl
  | cons t rest ih => simp only [List.flatMap_cons, List.filterMap_append, ih]

theorem txBookings_in (cfg : BalCfg) (hv : cfg.valuation = none) (t : Transaction)
    (hs : cfg.span.contains t.date = true) : txBookings cfg t = Balance.queryTx cfg t := by
  unfold txBookings Balance.queryTx
  rw [List.filterMap_map]
  apply filterMap_ext
  intro p _
  simp only [Function.comp, hs, if_true]
  rw [queryPosting_eq_entryOf cfg hv]

theorem txBookings_out (cfg : BalCfg) (t : Transaction)
    (hs : ¬ cfg.span.contains t.date = true) : txBookings cfg t = [] := by
  unfold txBookings
  rw [List.filterMap_map]
  rw [List.filterMap_eq_nil_iff]
  intro p _
  simp only [Function.comp, hs]
  rfl

theorem day_noclose (cfg : BalCfg) (hv : cfg.valuation = none) (hc : cfg.close = false)
    (st st' : BalState) (d : Day) (hd : ∀ t ∈ d.transactions, t.date = d.date)
    (h : Balance.day cfg st d = .ok st') : st'.entries = st.entries ++ dayBookings cfg d := by
  unfold Balance.day Balance.dayTxs at h
  simp only [bind, Except.bind] at h
  cases hck : Balance.checkStage st d with
  | error e => rw [hck] at h; cases h
  | ok s1 =>
    rw [hck] at h
    have e1 : s1.entries = st.entries := by
      unfold Balance.checkStage at hck
      split at hck
      · injection hck with hck; subst hck; rfl
      · cases hck
    unfold Balance.valuationStage Balance.closeStage Balance.filterStage at h
    simp only [hv, hc, Bool.false_eq_true, if_false] at h
    injection h with h; subst h
    simp only [e1]
    congr 1
    rw [dayBookings_eq]
    by_cases hs : cfg.span.contains d.date = true
    · simp only [hs, if_true]
      generalize d.transactions = ts at hd
      induction ts with
      | nil => rfl
      | cons t rest ih =>
        simp only [List.flatMap_cons]
        rw [ih (fun t ht => hd t (List.mem_cons_of_mem _ ht)),
          txBookings_in cfg hv t (by rw [hd t List.mem_cons_self]; exact hs)]
    · simp only [hs]
      generalize d.transactions = ts at hd
      induction ts with
      | nil => rfl
      | cons t rest ih =>
        simp only [List.flatMap_cons]
        rw [← ih (fun t ht => hd t (List.mem_cons_of_mem _ ht)),
          txBookings_out cfg t (by rw [hd t List.mem_cons_self]; exact hs)]
        rfl

/-- **without closing, the report inserts are exactly the ledger entries** -/
theorem C02_noclose (cfg : BalCfg) (hv : cfg.valuation = none) (hc : cfg.close = false)
    (days : List Day) (hd : DaysConsistent days) (st : BalState) (h : Balance.run cfg days = .ok st) :
    st.entries = ledgerEntries cfg days := by
  have hclose : closingEntries cfg days = [] := by unfold closingEntries; simp [hc]
  unfold ledgerEntries
  rw [hclose, List.append_nil]
  unfold Balance.run at h
  suffices hgen : ∀ (days : List Day) (st0 st : BalState), DaysConsistent days →
      days.foldlM (Balance.day cfg) st0 = .ok st → st.entries = st0.entries ++ bookingEntries cfg days by
    simpa using hgen days {} st hd h
  intro days
  induction days with
  | nil =>
    intro st0 st _ h
    simp only [List.foldlM_nil, pure, Except.pure] at h
    injection h with h; subst h
    simp [bookingEntries, datedPostings]
  | cons d rest ih =>
    intro st0 st hd h
    simp only [List.foldlM_cons, bind, Except.bind] at h
    cases h1 : Balance.day cfg st0 d with
    | error e => rw [h1] at h; cases h
    | ok st1 =>
      rw [h1] at h; simp only at h
      rw [ih st1 st (fun d' hd' => hd d' (List.mem_cons_of_mem _ hd')) h,
        day_noclose cfg hv hc st0 st1 d (hd d List.mem_cons_self) h1, bookingEntries_cons, List.append_assoc]

/-- **accounts not matched by a mapping rule are unaffected by it** -/
theorem C02_unmapped_untouched (m : List MapRule) (a : Account) (h : ∀ r ∈ m, r.test a.name = false) :
    shorten m a = some a := by
  unfold shorten mappingLevel
  have : m.find? (fun r => r.test a.name) = none := by
    apply List.find?_eq_none.mpr
    intro r hr; simp [h r hr]
  rw [this]

/-- **hidden accounts contribute no row entry** (their amounts are missing from both totals' rows and
therefore show up only in Delta, which is the sum of what is shown) -/
theorem C02_hidden_no_entry (cfg : BalCfg) (t : Transaction) (p : Posting) (h : mapAccount cfg p.account = none) :
    Balance.queryPosting cfg t p = none := by
  unfold Balance.queryPosting
  split
  · rw [h]
  · rfl

/-- the Delta value of a column/commodity is the sum of the shown entries, i.e. minus the hidden ones
whenever the unhidden report would balance (C01) -/
theorem C02_hidden_only_in_delta (es : List Entry) (byCom : Bool) (c : Option Commodity) (d : Int) :
    BalanceReport.cellAt es byCom c d =
      BalanceReport.cellAt (es.filter (fun e => e.account.isAL)) byCom c d +
      BalanceReport.cellAt (es.filter (fun e => !e.account.isAL)) byCom c d := by
  unfold BalanceReport.cellAt BalanceReport.sumAmounts
  induction es with
  | nil => exact (Rat.add_zero 0).symm
  | cons e rest ih =>
    by_cases hal : e.account.isAL = true
    · by_cases hk : (decide (e.date = some d) && decide ((if byCom = true then some e.commodity else none) = c)) = true
      · simp only [List.filter_cons, hal, hk, Bool.not_true, if_true, Bool.false_eq_true, if_false, List.map_cons, List.sum_cons]
        rw [ih, Rat.add_assoc]
      · simp only [List.filter_cons, hal, hk, Bool.not_true, if_true, Bool.false_eq_true, if_false]
        exact ih
    · by_cases hk : (decide (e.date = some d) && decide ((if byCom = true then some e.commodity else none) = c)) = true
      · simp only [List.filter_cons, hal, hk, Bool.not_false, if_true, Bool.false_eq_true, if_false, List.map_cons, List.sum_cons]
        rw [ih, ← Rat.add_assoc, ← Rat.add_assoc, Rat.add_comm e.amount]
      · simp only [List.filter_cons, hal, hk, Bool.not_false, if_true, Bool.false_eq_true, if_false]
        exact ih

/-- total quantity a list of postings books on an account -/
def bookedOn (ps : List Posting) (a : Account) : Rat := ((ps.filter (fun p => p.account = a)).map (·.quantity)).sum

/-- **closing transfers exactly the accumulated total** (key step of the closing clause): the closing
transaction for a position with accumulated total `T` books `−T` on the account and `+T` on `Equity:Equity`,
so the row restarts at zero and the equity account carries the previous total. -/
theorem C02_closing_partial (a : Account) (c : Commodity) (T : Rat) (ha : a ≠ equityAccount) :
    bookedOn (postingBuild a equityAccount c T 0) a = -T ∧
    bookedOn (postingBuild a equityAccount c T 0) equityAccount = T := by
  have hb : ¬ equityAccount = a := fun e => ha e.symm
  unfold postingBuild bookedOn
  by_cases hneg : T < 0
  · simp [hneg, ha, hb, Rat.add_zero, Rat.neg_neg]
  · by_cases hz : T = 0
    · subst hz; simp [ha, hb, Rat.lt_irrefl, Rat.add_zero]
    · simp [hneg, hz, ha, hb, Rat.add_zero]

/-! Non-vacuity: built days are consistent -/
example : DaysConsistent ((Builder.ofList [.tx (Transaction.ofBookings 3 "x" none [⟨⟨["Equity", "E"]⟩, ⟨["Assets", "A"]⟩, 5, "CHF"⟩])]).build) := by
  intro d hd t ht
  simp [Builder.ofList, Builder.add, Builder.build, addToDays, insertDay, Day.add, Directive.date] at hd
  subst hd
  simp [Transaction.ofBookings] at ht
  subst ht; rfl

end Knut.C02
