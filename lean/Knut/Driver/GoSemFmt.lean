import Knut.Wire
import Knut.GoSem.Fmt
/-! Driver ops `gosemfmt …`: the primitives of `Knut/GoSem/Fmt.lean` (`io.Writer` as the text written so far, `fmt`'s padding,
`strings.Join`, `Time.Format("2006-01-02")`) and the reading of `fmt.Fprintf(p, …)` / `io.WriteString(p, s)` as one call of
`p.Write`, evaluated for the differential stream `gosemfmt` of C11 (`harness/gosem_fmt.go`). -/
namespace Knut.Driver.GoSemFmt
open Knut Knut.Wire Knut.GoSem

def unhexList (s : String) : Option (List String) :=
  if s = "-" then some [] else (splitOn s ',').mapM unhexStr

def handle (fields : List String) : Option String :=
  match fields with
  | ["gosemfmt", "pad", minus, w, s] =>
    match parseInt w, unhexStr s with
    | some w, some s => some (hexStr (Fmt.pad (minus == "1") w s))
    | _, _ => some "bad-op"
  | ["gosemfmt", "padstar", minus, w, s] =>
    match parseInt w, unhexStr s with
    | some w, some s => some (hexStr (Fmt.padStar (minus == "1") w s))
    | _, _ => some "bad-op"
  | ["gosemfmt", "join", xs, sep] =>
    match unhexList xs, unhexStr sep with
    | some xs, some sep => some (hexStr (Strings.Join xs sep))
    | _, _ => some "bad-op"
  | ["gosemfmt", "fmtiso", t] =>
    match parseInt t with
    | some t => some (Time.FormatISO t)
    | none => some "bad-op"
  | ["gosemfmt", "fprintf", before, w, a, b, q, c] =>
    match unhexStr before, parseInt w, unhexStr a, unhexStr b, unhexStr q, unhexStr c with
    | some before, some w, some a, some b, some q, some c =>
      -- the translation of `fmt.Fprintf(rec, "%-*s %-*s %10s %s", w, a, w, b, q, c); io.WriteString(rec, "\n"); rec.Write(c)`
      let r1 := Writer.Write before (Fmt.padStar true w a ++ " " ++ Fmt.padStar true w b ++ " " ++ Fmt.pad false 10 q ++ " " ++ c)
      let r2 := Writer.Write r1.1 "\n"
      let r3 := Writer.Write r2.1 c
      some s!"3 {hexStr r3.1} {r1.2.1} {r2.2.1} {r3.2.1} {r1.2.2.isNone} {r2.2.2.isNone} {r3.2.2.isNone}"
    | _, _, _, _, _, _ => some "bad-op"
  | _ => none

end Knut.Driver.GoSemFmt
