import Knut.Basic.AMap
/-!
# Meaning of the Go primitives used by the translated code (`harness/trans*.go`)

Hand-written and small on purpose: together with the translator this file is the trusted
reading of Go.  Every definition here is compared with the real Go primitive by the
differential stream `gosem` of C11 (`harness/gosem.go`, ops in `Driver/GoSem.lean`).

* Go `int`/`int64` are `Int` (unbounded): overflow is NOT modelled.  The translated functions
  compute on day numbers, months, lengths and counters only.
* `a / b`, `a % b` on integers truncate toward zero (`Int.tdiv`, `Int.tmod`); a zero divisor
  panics (`idivE`/`imodE`), a non-zero literal divisor cannot (`idiv`/`imod`).
* a function that can panic, that indexes a slice or that runs a three-clause/condition `for`
  loop is translated into the `Outcome` monad: `ok v`, `panic msg`, or `outOfFuel` when the
  fuel given to a loop did not suffice (an agreement theorem with a model function that never
  answers `outOfFuel` proves that the fuel expression is adequate).
* `error` values are `Option Error`; an `Error` keeps the constant message/format string only.
-/
namespace Knut.GoSem

inductive Outcome (α : Type) where
  | ok : α → Outcome α
  | panic : String → Outcome α
  | outOfFuel : Outcome α
  deriving Repr, DecidableEq

namespace Outcome
def bind {α β : Type} (x : Outcome α) (f : α → Outcome β) : Outcome β :=
  match x with
  | .ok a => f a
  | .panic m => .panic m
  | .outOfFuel => .outOfFuel
end Outcome

instance : Monad Outcome where
  pure := Outcome.ok
  bind := Outcome.bind

@[simp] theorem pure_eq {α : Type} (a : α) : (pure a : Outcome α) = Outcome.ok a := rfl
@[simp] theorem ok_bind {α β : Type} (a : α) (f : α → Outcome β) : (Outcome.ok a >>= f) = f a := rfl
@[simp] theorem panic_bind {α β : Type} (m : String) (f : α → Outcome β) :
    (Outcome.panic m >>= f) = Outcome.panic m := rfl
@[simp] theorem outOfFuel_bind {α β : Type} (f : α → Outcome β) :
    ((Outcome.outOfFuel : Outcome α) >>= f) = Outcome.outOfFuel := rfl

/-- result of a loop body or loop that contains a `return`: either control falls through with
the loop state `σ` or the enclosing function returns `ρ`. -/
inductive Flow (σ ρ : Type) where
  | next : σ → Flow σ ρ
  | ret : ρ → Flow σ ρ
  deriving Repr

/-- Go `error`: only the constant message (for `fmt.Errorf` the format string) is kept. -/
structure Error where
  msg : String
  deriving Repr, DecidableEq

/-- a Go pointer that the translated code only copies (a pointer into the syntax tree, `Src` fields): never
dereferenced, compared or assigned through there; `id = 0` is `nil` -/
structure Ref where
  id : Nat
  deriving Repr, DecidableEq

/-- zero value of a Go type (`var x T`, missing map entry, omitted struct field) -/
class GoZero (α : Type) where
  zero : α

instance : GoZero Int := ⟨0⟩
instance : GoZero Ref := ⟨⟨0⟩⟩
instance : GoZero Unit := ⟨()⟩
instance : GoZero Bool := ⟨false⟩
instance : GoZero String := ⟨""⟩
instance : GoZero Rat := ⟨0⟩
instance {α : Type} : GoZero (List α) := ⟨[]⟩
instance {α : Type} : GoZero (Option α) := ⟨none⟩
instance {α β : Type} [GoZero α] [GoZero β] : GoZero (α × β) := ⟨(GoZero.zero, GoZero.zero)⟩

@[simp] theorem zero_int : (GoZero.zero : Int) = 0 := rfl
@[simp] theorem zero_bool : (GoZero.zero : Bool) = false := rfl
@[simp] theorem zero_string : (GoZero.zero : String) = "" := rfl
@[simp] theorem zero_rat : (GoZero.zero : Rat) = 0 := rfl
@[simp] theorem zero_list {α : Type} : (GoZero.zero : List α) = [] := rfl
@[simp] theorem zero_option {α : Type} : (GoZero.zero : Option α) = none := rfl

/-- Go `a / b` on integers for a divisor that is a non-zero constant: truncated toward zero -/
@[simp] def idiv (a b : Int) : Int := Int.tdiv a b
/-- Go `a % b` on integers for a divisor that is a non-zero constant: sign of the dividend -/
@[simp] def imod (a b : Int) : Int := Int.tmod a b

/-- truncating and flooring division coincide on non-negative dividends; on negative ones `tdiv` mirrors -/
theorem tdiv_eq (a b : Int) : Int.tdiv a b = if 0 ≤ a then a / b else -((-a) / b) := by
  split
  · exact Int.tdiv_eq_ediv_of_nonneg ‹_›
  · have h : 0 ≤ -a := by omega
    have := Int.tdiv_eq_ediv_of_nonneg (b := b) h
    rw [Int.neg_tdiv] at this
    omega
theorem tmod_eq (a b : Int) : Int.tmod a b = if 0 ≤ a then a % b else -((-a) % b) := by
  split
  · exact Int.tmod_eq_emod_of_nonneg ‹_›
  · have h : 0 ≤ -a := by omega
    have := Int.tmod_eq_emod_of_nonneg (b := b) h
    rw [Int.neg_tmod] at this
    omega

/-- Go `a / b` on integers: run-time panic for `b = 0` -/
def idivE (a b : Int) : Outcome Int :=
  if b = 0 then .panic "runtime error: integer divide by zero" else .ok (Int.tdiv a b)
def imodE (a b : Int) : Outcome Int :=
  if b = 0 then .panic "runtime error: integer divide by zero" else .ok (Int.tmod a b)

/-- `len(xs)` -/
@[simp] def len {α : Type} (xs : List α) : Int := (xs.length : Int)

/-- `xs[i]`: run-time panic outside `0 ≤ i < len(xs)` -/
def index {α : Type} (xs : List α) (i : Int) : Outcome α :=
  if i < 0 then .panic "runtime error: index out of range"
  else match xs[i.toNat]? with
    | some v => .ok v
    | none => .panic "runtime error: index out of range"

/-- `xs[i] = v` -/
def setIndex {α : Type} (xs : List α) (i : Int) (v : α) : Outcome (List α) :=
  if i < 0 ∨ (xs.length : Int) ≤ i then .panic "runtime error: index out of range"
  else .ok (xs.set i.toNat v)

/-- `xs[lo:hi]` for `0 ≤ lo ≤ hi ≤ len(xs)` (the capacity is not modelled: `hi` may not exceed the length) -/
def slice {α : Type} (xs : List α) (lo hi : Int) : Outcome (List α) :=
  if lo < 0 ∨ hi < lo ∨ (xs.length : Int) < hi then .panic "runtime error: slice bounds out of range"
  else .ok ((xs.take hi.toNat).drop lo.toNat)

/-- `compare.Ordered(a, b)` = `cmp.Compare(a, b)` on integers and strings: -1, 0, +1 -/
def cmpOrdered {α : Type} [LT α] [DecidableLT α] (a b : α) : Int :=
  if a < b then -1 else if b < a then 1 else 0

/-- `compare.Order` (-1, 0, +1) of a Lean `Ordering` -/
def ordGo : Ordering → Int
  | .lt => -1
  | .eq => 0
  | .gt => 1

/-- the entry of `m` at `k`, or `c` when there is none (`dict.GetDefault` before the entry is stored) -/
def getDefault {κ ν : Type} [DecidableEq κ] (m : AMap κ ν) (k : κ) (c : ν) : ν := (AMap.find? m k).getD c

/-- `dict.SortedKeys(m, cmp)`: the keys of the map sorted with "less" = (`cmp` = Smaller).  Exact when `cmp` is a strict total
order on the keys (then neither Go's map iteration order nor the unstable `sort.Slice` can show). -/
def sortedKeys {κ ν : Type} (m : AMap κ ν) (cmp : κ → κ → Int) : List κ :=
  (m.map Prod.fst).mergeSort (fun a b => decide (cmp a b ≠ 1))

/-- `dict.SortedValues(m, cmp)`: the values of the map sorted with "less" = (`cmp` = Smaller).  Exact when `cmp` is a strict total
order on the values that occur (then neither Go's map iteration order nor the unstable `sort.Slice` can show). -/
def sortedValues {κ ν : Type} (m : AMap κ ν) (cmp : ν → ν → Int) : List ν :=
  (m.map Prod.snd).mergeSort (fun a b => decide (cmp a b ≠ 1))

/-- a call `f(a)` of a function VALUE (a variable or field of function type): nil panics -/
def callFn1 {α β : Type} (f : Option (α → Outcome β)) (a : α) : Outcome β :=
  match f with
  | none => .panic "invalid memory address or nil pointer dereference"
  | some g => g a
def callFn2 {α β γ : Type} (f : Option (α → β → Outcome γ)) (a : α) (b : β) : Outcome γ :=
  match f with
  | none => .panic "invalid memory address or nil pointer dereference"
  | some g => g a b
def callFn3 {α β γ δ : Type} (f : Option (α → β → γ → Outcome δ)) (a : α) (b : β) (c : γ) : Outcome δ :=
  match f with
  | none => .panic "invalid memory address or nil pointer dereference"
  | some g => g a b c

/-- the body of a `for … range` loop in the Outcome monad -/
def foldlE {σ α : Type} (f : σ → α → Outcome σ) : σ → List α → Outcome σ
  | s, [] => .ok s
  | s, x :: rest => (f s x).bind (fun s' => foldlE f s' rest)

/-- fuel for a loop whose condition starts with `a >= b` (or `!a.Before(b)`) and whose body lowers `a` -/
def fuelGe (a b : Int) : Nat := (a - b + 1).toNat
/-- fuel for a loop whose condition starts with `a < b` and whose body narrows the gap -/
def fuelLt (a b : Int) : Nat := (b - a).toNat

/-- `sort.Search(n, f)`: Go's binary search, literally
`i, j := 0, n; for i < j { h := int(uint(i+j) >> 1); if !f(h) { i = h + 1 } else { j = h } }; return i`. -/
def sortSearchLoop (f : Int → Outcome Bool) : Nat → Int → Int → Outcome Int
  | 0, i, j => if i < j then .outOfFuel else .ok i
  | fuel + 1, i, j =>
    if i < j then
      let h := (i + j) / 2
      f h >>= fun b => if !b then sortSearchLoop f fuel (h + 1) j else sortSearchLoop f fuel i h
    else .ok i

def sortSearch (n : Int) (f : Int → Outcome Bool) : Outcome Int := sortSearchLoop f n.toNat 0 n

end Knut.GoSem
