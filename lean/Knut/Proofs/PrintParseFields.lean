import Knut.Proofs.PrintParseBridge
import Knut.Proofs.DecRoundTrip
import Knut.Model.JournalPrinter
/-!
# Field texts of the journal printer re-read to the same values (dates, amounts, accounts, names)
-/
namespace Knut.FromSyntax
open Knut Knut.Utf8 Knut.Dec

/-! ### dates -/

theorem cumDays_diff (leap : Bool) (y m : Int) (hl : Date.isLeap y = leap) (h1 : 1 ≤ m) (h12 : m ≤ 12) :
    Date.cumDays leap (m + 1) - Date.cumDays leap m = daysIn y m := by
  have : m = 1 ∨ m = 2 ∨ m = 3 ∨ m = 4 ∨ m = 5 ∨ m = 6 ∨ m = 7 ∨ m = 8 ∨ m = 9 ∨ m = 10 ∨ m = 11 ∨ m = 12 := by omega
  rcases this with rfl | rfl | rfl | rfl | rfl | rfl | rfl | rfl | rfl | rfl | rfl | rfl <;>
    cases leap <;> simp [Date.cumDays, daysIn, hl]

theorem day_le_daysIn (z : Int) : Date.day z ≤ daysIn (Date.year z) (Date.month z) := by
  have ⟨a, b⟩ := Date.dayOfYear_bounds z
  have hl : Date.cumDays (Date.isLeap (Date.year z)) 13 = Date.yearLen (Date.year z) := by
    unfold Date.yearLen Date.cumDays; cases Date.isLeap (Date.year z) <;> simp
  have sp := Date.monthOfDoy_spec (Date.isLeap (Date.year z)) (Date.dayOfYear z) a (by omega)
  have ⟨m1, m12⟩ := Date.month_bounds z
  have := cumDays_diff (Date.isLeap (Date.year z)) (Date.year z) (Date.month z) rfl m1 m12
  unfold Date.day Date.month at *
  omega

/-- the first day of the year 0000 (`time.Parse` accepts the years 0000..9999) -/
def minDate : Int := -366

theorem year_bounds (z : Int) (h0 : minDate ≤ z) (h1 : z ≤ maxDate) : 0 ≤ Date.year z ∧ Date.year z ≤ 9999 := by
  have ⟨a, b⟩ := Date.year_spec z
  constructor
  · by_cases h : 0 ≤ Date.year z
    · exact h
    · exfalso
      have : Date.yearStart (Date.year z + 1) ≤ Date.yearStart 0 := Date.yearStart_mono (by omega)
      have e : Date.yearStart 0 = -366 := by decide
      simp only [minDate] at h0
      omega
  · by_cases h : Date.year z ≤ 9999
    · exact h
    · exfalso
      have : Date.yearStart 10000 ≤ Date.yearStart (Date.year z) := Date.yearStart_mono (by omega)
      have e : Date.yearStart 10000 = 3652059 := by decide
      simp only [maxDate] at h1
      omega

/-- the characters of a printed date -/
def dateChars (z : Int) : List Char :=
  fracDigits 4 (Date.year z).toNat ++ '-' :: (fracDigits 2 (Date.month z).toNat ++ '-' :: fracDigits 2 (Date.day z).toNat)

theorem fmtDate_toList (z : Int) : (JournalPrinter.fmtDate z).toList = dateChars z := by
  have ts : ∀ s : String, toString s = s := fun _ => rfl
  simp [JournalPrinter.fmtDate, BalanceReport.fmtDate, BalanceReport.pad, dateChars, fracDigits, String.toList_append,
    Nat.toString_eq_repr, Nat.repr_eq_ofList_toDigits, String.length_ofList, ts]

/-- bytes of ASCII characters -/
theorem flat_ascii (cs : List Char) (h : ∀ c ∈ cs, c.toNat < 128) :
    flat (charsToks cs) = cs.map (fun c => UInt8.ofNat c.toNat) := by
  induction cs with
  | nil => rfl
  | cons c cs ih =>
    have hc := h c List.mem_cons_self
    simp only [charsToks, List.map_cons, flat_cons, charTok_ascii c hc, tk] at ih ⊢
    rw [ih (fun x hx => h x (List.mem_cons_of_mem _ hx))]
    rfl

theorem digit_range {c : Char} (h : Dec.isDigit c = true) : 48 ≤ c.toNat ∧ c.toNat ≤ 57 := by
  simp only [Dec.isDigit, Bool.and_eq_true, decide_eq_true_eq, Char.le_def] at h
  exact h

theorem digitsToNat_zeros (j : Nat) (cs : List Char) : digitsToNat (List.replicate j '0' ++ cs) = digitsToNat cs := by
  unfold digitsToNat
  induction j with
  | zero => rfl
  | succ j ih => simp [List.replicate_succ, List.foldl_cons] at ih ⊢; exact ih

theorem digitsToNat_fracDigits (k n : Nat) : digitsToNat (fracDigits k n) = n := by
  unfold fracDigits
  rw [digitsToNat_zeros, digitsToNat_digitsOf]

theorem byte_of_digit {c : Char} (h : Dec.isDigit c = true) :
    asciiDigit (UInt8.ofNat c.toNat) = true ∧ (UInt8.ofNat c.toNat).toNat - 48 = c.toNat - '0'.toNat := by
  have ⟨a, b⟩ := digit_range h
  have e : (UInt8.ofNat c.toNat).toNat = c.toNat := by simp [UInt8.toNat_ofNat']; omega
  simp [asciiDigit, e, a, b]

/-- **dates re-read**: a printed date of the years 0000..9999 parses back to the same day -/
theorem parseDate_fmtDate (z : Int) (h0 : minDate ≤ z) (h1 : z ≤ maxDate) :
    parseDate (flat (charsToks (dateChars z))) = some z := by
  have ⟨y1, y2⟩ := year_bounds z h0 h1
  have ⟨m1, m2⟩ := Date.month_bounds z
  have d1 := Date.day_pos z
  have d2 := day_le_daysIn z
  have d3 : daysIn (Date.year z) (Date.month z) ≤ 31 := by unfold daysIn; split <;> (try split) <;> (try split) <;> omega
  -- the three digit groups
  have ly := fracDigits_length (k := 4) (fp := (Date.year z).toNat) (by decide) (by simp; omega)
  have lm := fracDigits_length (k := 2) (fp := (Date.month z).toNat) (by decide) (by simp; omega)
  have ld := fracDigits_length (k := 2) (fp := (Date.day z).toNat) (by decide) (by simp; omega)
  have vy := digitsToNat_fracDigits 4 (Date.year z).toNat
  have vm := digitsToNat_fracDigits 2 (Date.month z).toNat
  have vd := digitsToNat_fracDigits 2 (Date.day z).toNat
  have dy : ∀ c ∈ fracDigits 4 (Date.year z).toNat, Dec.isDigit c = true := fun c hc => fracDigits_isDigit hc
  have dm : ∀ c ∈ fracDigits 2 (Date.month z).toNat, Dec.isDigit c = true := fun c hc => fracDigits_isDigit hc
  have dd : ∀ c ∈ fracDigits 2 (Date.day z).toNat, Dec.isDigit c = true := fun c hc => fracDigits_isDigit hc
  have asc : ∀ c ∈ dateChars z, c.toNat < 128 := by
    intro c hc
    simp only [dateChars, List.mem_append, List.mem_cons] at hc
    rcases hc with h | h | h | h | h
    · have := digit_range (dy c h); omega
    · subst h; decide
    · have := digit_range (dm c h); omega
    · subst h; decide
    · have := digit_range (dd c h); omega
  rw [flat_ascii _ asc]
  unfold dateChars
  match hy : fracDigits 4 (Date.year z).toNat, ly with
  | [a1, a2, a3, a4], _ =>
    match hm : fracDigits 2 (Date.month z).toNat, lm with
    | [b1, b2], _ =>
      match hd : fracDigits 2 (Date.day z).toNat, ld with
      | [c1, c2], _ =>
        rw [hy] at dy vy; rw [hm] at dm vm; rw [hd] at dd vd
        have A1 := byte_of_digit (dy a1 (by simp)); have A2 := byte_of_digit (dy a2 (by simp))
        have A3 := byte_of_digit (dy a3 (by simp)); have A4 := byte_of_digit (dy a4 (by simp))
        have B1 := byte_of_digit (dm b1 (by simp)); have B2 := byte_of_digit (dm b2 (by simp))
        have C1 := byte_of_digit (dd c1 (by simp)); have C2 := byte_of_digit (dd c2 (by simp))
        simp only [List.cons_append, List.nil_append, List.map_cons, List.map_nil, parseDate]
        have hdash : UInt8.ofNat '-'.toNat = 45 := by decide
        simp only [hdash, true_and, List.all_cons, List.all_nil, Bool.and_true, A1.1, A2.1, A3.1, A4.1, B1.1, B2.1, C1.1, C2.1,
          Bool.and_self, if_true]
        have z0 : '0'.toNat = 48 := rfl
        have ey : (digitsVal [UInt8.ofNat a1.toNat, UInt8.ofNat a2.toNat, UInt8.ofNat a3.toNat, UInt8.ofNat a4.toNat] : Int) = Date.year z := by
          have e : digitsVal [UInt8.ofNat a1.toNat, UInt8.ofNat a2.toNat, UInt8.ofNat a3.toNat, UInt8.ofNat a4.toNat] = (Date.year z).toNat := by
            rw [← vy]
            simp only [digitsVal, digitsToNat, List.foldl_cons, List.foldl_nil, A1.2, A2.2, A3.2, A4.2]
          rw [e]; exact Int.toNat_of_nonneg (by omega)
        have em : (digitsVal [UInt8.ofNat b1.toNat, UInt8.ofNat b2.toNat] : Int) = Date.month z := by
          have e : digitsVal [UInt8.ofNat b1.toNat, UInt8.ofNat b2.toNat] = (Date.month z).toNat := by
            rw [← vm]
            simp only [digitsVal, digitsToNat, List.foldl_cons, List.foldl_nil, B1.2, B2.2]
          rw [e]; exact Int.toNat_of_nonneg (by omega)
        have ed : (digitsVal [UInt8.ofNat c1.toNat, UInt8.ofNat c2.toNat] : Int) = Date.day z := by
          have e : digitsVal [UInt8.ofNat c1.toNat, UInt8.ofNat c2.toNat] = (Date.day z).toNat := by
            rw [← vd]
            simp only [digitsVal, digitsToNat, List.foldl_cons, List.foldl_nil, C1.2, C2.2]
          rw [e]; exact Int.toNat_of_nonneg (by omega)
        simp only [ey, em, ed]
        rw [if_pos ⟨m1, m2, d1, d2⟩, Date.ofCivil_toCivil]

end Knut.FromSyntax
