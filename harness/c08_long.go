package main

// Stream `long` of C08: bookings whose account is wider than fmt's limit for a `*` width (10^6 runes; above it fmt prints
// `%!(BADWIDTH)` and does not pad).  printPosting used `%-*s` with the widest account as the width: `knut format` replaced such a
// file by one that no longer parses (known finding format-badwidth-account-above-1e6-runes, repaired by 51527df: padRight by hand).
// The cases keep the repair from regressing: model comparison, reparse, formatOK and idempotence run on them like on every other case.

import "strings"

// c08LongText: one transaction whose credit (even index) or debit (odd index) account has `runes` runes in its last segment
func c08LongText(index, runes int) string {
	ch := "A"
	if index%4 >= 2 {
		ch = "é" // two bytes per rune: the padding counts runes, not bytes
	}
	long := "Assets:" + strings.Repeat(ch, runes)
	cr, db := long, "Expenses:Food"
	if index%2 == 1 {
		cr, db = db, long
	}
	return "2024-01-01 open " + long + "\n2024-01-01 open Expenses:Food\n\n2024-01-02 \"lunch\"\n" + cr + " " + db + " 10 CHF\nExpenses:Food Assets:Cash  2.5 CHF\n"
}

// c08LongWidths: the widths of the stream (the segment after `Assets:`; the account itself is 7 runes wider)
func c08LongWidths(c *Ctx) []int {
	if c.Tier == "thorough" {
		return []int{1000001, 1000001, 999992, 999993, 999994, 1200000, 1000001, 2000000}
	}
	return []int{1000001, 999994}
}
