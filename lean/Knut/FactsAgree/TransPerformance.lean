import Knut.Generated.TransPerformance
import Knut.Proofs.MapSum
import Knut.FactsAgree.TransCheck
import Knut.Model.Performance
/-!
# The translated `lib/journal/performance` agrees with the model (`Model/Performance.lean`), part 1

`Knut/Generated/TransPerformance.lean` is regenerated from /repo on every run (`harness/trans_units_perf.go`).  The package computes
with `float64`; the translation reads a `float64` as an exact rational under the modelling assumption "exact arithmetic" of
`GoSem/Float.lean` — the assumption the hand-written model makes — and a division by zero (Go: `±Inf`/`NaN`, no panic) is the
distinct outcome `Outcome.panic F64.undefined`, the model's `none`.

| Go | theorem | model |
|---|---|---|
| `sum` (over `dict.SortedKeys`) | `sum_agrees`, `sum_model` | `sumVals` (the sum of the values, whatever the order) |
| `Performance` | `Performance_agrees`, `Performance_nil` | `factor` (`none` ↦ `F64.undefined`; a nil `*Performance` is Go's nil-pointer panic) |
| `Universe.Locate` | `Locate_agrees` | `Weights.locate` |
| `pickTargets` | `pickTargets_spec`, `pickTargets_agrees` | `pickTargets` (the identity: no commodity is tagged as a currency) |
| `Calculator.isPortfolioAccount` | `isPortfolioAccount_agrees` | `isPortfolio` |
| `ComputeValues`: init, `DayStart`, `Posting`, `DayEnd` | `ComputeValues_init_agrees`, `ComputeValues_DayStart_agrees`, `ComputeValues_Posting_agrees`, `ComputeValues_range_agrees`, `ComputeValues_DayEnd_agrees` | `valuesStep`, `PState.prev`, `DayPerf.v0/v1` |

Maps: a Go `map[*Commodity]float64` against the model's association list is `PEq` = agreement of every lookup, no key twice
(`MapSum.MEquiv`); under it the sums agree in every order (`MapSum.total_congr`).  MAP ITERATION ORDER: `ComputeValues.DayEnd` ranges
over the map of values; the theorem holds for EVERY order without repetition that reaches all keys (each commodity is added once to
the fresh map, so here the order would not matter for floats either).
-/
namespace Knut.FactsAgree.TransPerformance
open Knut Knut.GoSem Knut.MapSum
open Knut.Generated.Go
open Knut.FactsAgree.TransAccount Knut.FactsAgree.TransPosting
open Knut.FactsAgree.TransCheck (commodityGo_inj)

/-- the Go calculator of a model configuration: the filters are total functions of the names; a missing valuation is the zero commodity -/
def calcGo (cur : String → Bool) (cfg : Performance.Cfg) : performance.Calculator :=
  { Valuation := match cfg.valuation with | some v => commodityGo cur v | none => GoZero.zero,
    AccountFilter := some fun a => .ok (cfg.accountFilter (account.Account.Name a)),
    CommodityFilter := some fun c => .ok (cfg.commodityFilter (commodity.Commodity.Name c)) }

/-- a Go per-commodity map and a model map: every lookup agrees, no key twice -/
abbrev PEq (cur : String → Bool) (g : AMap commodity.Commodity Rat) (m : AMap Knut.Commodity Rat) : Prop :=
  MEquiv (commodityGo cur) g m

theorem cinj (cur : String → Bool) : ∀ a b : Knut.Commodity, commodityGo cur a = commodityGo cur b → a = b :=
  fun _ _ h => commodityGo_inj cur h

/-! ## `sum` -/

theorem map_get_keys {κ : Type} [DecidableEq κ] (m : AMap κ Rat) (hn : NodupKeys m) :
    (m.map Prod.fst).map (fun c => AMap.get m c 0) = m.map (·.2) := by
  induction m with
  | nil => rfl
  | cons e rest ih =>
    obtain ⟨a, b⟩ := e
    have hn' : a ∉ rest.map Prod.fst ∧ NodupKeys rest := by simpa [NodupKeys] using hn
    simp only [List.map_cons, List.cons.injEq]
    refine ⟨by simp [AMap.get, AMap.find?], ?_⟩
    rw [← ih hn'.2]
    apply List.map_congr_left
    intro c hc
    have : a ≠ c := fun e => hn'.1 (e ▸ hc)
    simp [AMap.get, AMap.find?, this]

/-- **`sum`**: the values added in the order of the commodity names are the sum of the values -/
theorem sum_agrees (g : AMap commodity.Commodity Rat) (hn : NodupKeys g) : performance.sum g = total g := by
  unfold performance.sum sortedKeys
  simp only [zero_rat]
  rw [foldl_add_eq_sum (fun c => AMap.get g c 0)]
  rw [sum_perm ((List.mergeSort_perm _ _).map _), map_get_keys g hn]
  simp only [total]; grind

/-- against the model: `sumVals` of the model's map -/
theorem sum_model (cur : String → Bool) {g : AMap commodity.Commodity Rat} {m : AMap Knut.Commodity Rat} (h : PEq cur g m) :
    performance.sum g = Performance.sumVals m := by
  rw [sum_agrees g h.gnodup, total_congr (cinj cur) h]; rfl

/-! ## `Performance` -/

/-- a Go `journal.Performance` stands for the model's `DayPerf`: `V0`, `V1` by lookups; the model keeps of `Inflow`/`Outflow` their sums
and of `PortfolioInflow/Outflow` the signed flow they are the positive and the negative part of -/
structure PerfRel (cur : String → Bool) (p : journal.Performance) (dp : Performance.DayPerf) : Prop where
  v0 : PEq cur p.V0 dp.v0
  v1 : PEq cur p.V1 dp.v1
  inNodup : NodupKeys p.Inflow
  outNodup : NodupKeys p.Outflow
  inflow : total p.Inflow = dp.inflow
  outflow : total p.Outflow = dp.outflow
  pin : p.PortfolioInflow = F64.max 0 dp.portfolioFlows
  pout : p.PortfolioOutflow = F64.min 0 dp.portfolioFlows

/-- **`Performance`** = `factor`: the same growth factor; the model's `none` (division by zero) is the distinct outcome `F64.undefined` -/
theorem Performance_agrees (cur : String → Bool) {p : journal.Performance} {dp : Performance.DayPerf} (h : PerfRel cur p dp) :
    performance.Performance (some p) =
      match Performance.factor dp with
      | some x => .ok x
      | none => .panic F64.undefined := by
  unfold performance.Performance Performance.factor
  simp only [derefE_some, Outcome.bind, zero_rat, Rat.zero_add, sum_model cur h.v0, sum_model cur h.v1,
    sum_agrees _ h.inNodup, sum_agrees _ h.outNodup, h.inflow, h.outflow, h.pin, h.pout, F64.max, F64.min,
    Bool.and_eq_true, decide_eq_true_eq, and_assoc]
  by_cases hc : Performance.sumVals dp.v0 = Performance.sumVals dp.v1 ∧
      (if 0 < dp.portfolioFlows then dp.portfolioFlows else 0) + dp.inflow = 0 ∧
        (if dp.portfolioFlows < 0 then dp.portfolioFlows else 0) + dp.outflow = 0
  · simp only [hc, and_self, if_true]
  · simp only [hc, if_false]
    by_cases hz : Performance.sumVals dp.v0 + ((if 0 < dp.portfolioFlows then dp.portfolioFlows else 0) + dp.inflow) = 0
    · simp only [hz, F64.divE_zero, if_true]
    · simp only [hz, F64.divE_ne hz, if_false]

/-- a nil `*journal.Performance` (a day that `ComputeValues` has not seen): Go's nil-pointer panic -/
theorem Performance_nil : performance.Performance none = .panic nilDeref := rfl

/-! ## `Universe.Locate` -/

/-- a Go universe and the model's: every lookup agrees -/
def UEq (cur : String → Bool) (g : performance.Universe) (u : AMap Knut.Commodity (List String)) : Prop :=
  ∀ c, AMap.find? g (commodityGo cur c) = AMap.find? u c

/-- **`Universe.Locate`**: the stored class path, or `["Other", name]` -/
theorem Locate_agrees (cur : String → Bool) {g : performance.Universe} {u : AMap Knut.Commodity (List String)} (h : UEq cur g u)
    (c : Knut.Commodity) :
    performance.Universe.Locate g (commodityGo cur c) = (match AMap.find? u c with | some p => p | none => ["Other", c]) := by
  unfold performance.Universe.Locate
  simp only [AMap.get, h c]
  cases AMap.find? u c <;> simp [commodity.Commodity.Name, commodityGo]

/-! ## `pickTargets` -/

/-- what `pickTargets` computes for arbitrary currency tags: nil and the empty list as they are; otherwise the non-currencies if there
are any, else the commodities other than the valuation if there are any, else all -/
def pickSpec (valuation : commodity.Commodity) (tg : Option (List commodity.Commodity)) : Option (List commodity.Commodity) :=
  match tg with
  | none => none
  | some l =>
    if l = [] then some []
    else if (l.filter (fun c => !c.IsCurrency)) ≠ [] then some (l.filter (fun c => !c.IsCurrency))
    else if (l.filter (fun c => !decide (c = valuation))) ≠ [] then some (l.filter (fun c => !decide (c = valuation)))
    else some l

theorem foldl_filter_append {α : Type} (p : α → Bool) (l acc : List α) :
    l.foldl (fun (res : List α) c => if p c then res ++ [c] else res) acc = acc ++ l.filter p := by
  induction l generalizing acc with
  | nil => simp
  | cons x l ih =>
    simp only [List.foldl_cons, ih, List.filter_cons]
    by_cases h : p x = true <;> simp [h]

theorem nilIfEmpty_of_ne {α : Type} {l : List α} (h : l ≠ []) : nilIfEmpty l = some l := by
  cases l with
  | nil => exact absurd rfl h
  | cons x l => rfl

theorem len_pos_iff {α : Type} (l : List α) : ((len l) > (0 : Int)) ↔ l ≠ [] := by
  cases l with
  | nil => simp [len]
  | cons x l => simp only [len, List.length_cons, ne_eq, reduceCtorEq, not_false_eq_true, iff_true]; omega

/-- **`pickTargets`** for arbitrary currency tags -/
theorem pickTargets_spec (valuation : commodity.Commodity) (tg : Option (List commodity.Commodity)) :
    performance.pickTargets valuation tg = pickSpec valuation tg := by
  unfold performance.pickTargets pickSpec
  rcases tg with _ | l
  · simp
  · by_cases hL : l = []
    · subst hL; simp
    · simp only [Option.getD_some, zero_list, hL, if_false]
      have h0 : ¬ (len l = (0 : Int)) := by
        have := (len_pos_iff l).2 hL; omega
      simp only [h0, decide_false, Bool.false_eq_true, if_false]
      have e1 := foldl_filter_append (fun c : commodity.Commodity => !c.IsCurrency) l []
      have e2 := fun acc => foldl_filter_append (fun c : commodity.Commodity => !decide (c = valuation)) l acc
      simp only [List.nil_append] at e1
      simp only [e1, e2]
      generalize List.filter (fun c : commodity.Commodity => !c.IsCurrency) l = A
      generalize List.filter (fun c : commodity.Commodity => !decide (c = valuation)) l = B
      by_cases ha : A = []
      · subst ha
        simp only [len, List.length_nil, Int.natCast_zero, gt_iff_lt, Int.lt_irrefl, decide_false, Bool.false_eq_true, if_false,
          ne_eq, not_true_eq_false, List.nil_append]
        by_cases hb : B = []
        · subst hb; simp
        · have hl2 : (0 : Int) < (B.length : Int) := by have := (len_pos_iff B).2 hb; simpa [len] using this
          simp [hb, nilIfEmpty_of_ne hb]
      · have hl : (len A) > (0 : Int) := (len_pos_iff A).2 ha
        simp only [hl, decide_true, if_true, ne_eq, ha, not_false_eq_true, nilIfEmpty_of_ne ha]

/-- **`pickTargets`** = the model's (the identity): no commodity of the list is tagged as a currency (`TagCurrency` has no caller) -/
theorem pickTargets_agrees (cur : String → Bool) (valuation : commodity.Commodity) (tg : Option (List Knut.Commodity))
    (hcur : ∀ l, tg = some l → ∀ c ∈ l, cur c = false) :
    performance.pickTargets valuation (tg.map (fun l => l.map (commodityGo cur))) =
      (Performance.pickTargets tg).map (fun l => l.map (commodityGo cur)) := by
  rw [pickTargets_spec]
  unfold pickSpec Performance.pickTargets
  rcases tg with _ | l
  · rfl
  · by_cases hL : l = []
    · subst hL; rfl
    · have hall : List.filter (fun c : commodity.Commodity => !c.IsCurrency) (l.map (commodityGo cur)) = l.map (commodityGo cur) := by
        apply List.filter_eq_self.2
        intro c hc
        obtain ⟨c0, hc0, rfl⟩ := List.mem_map.1 hc
        simp [commodityGo, hcur _ rfl c0 hc0]
      have hne : l.map (commodityGo cur) ≠ [] := by simpa using hL
      simp only [Option.map_some, hne, if_false, hall, ne_eq, not_false_eq_true, if_true]

/-! ## `Calculator.isPortfolioAccount` -/

/-- **`isPortfolioAccount`** = `isPortfolio`: never a panic (the filters are set) -/
theorem isPortfolioAccount_agrees (cur : String → Bool) (cfg : Performance.Cfg) (a : Knut.Account) :
    performance.Calculator.isPortfolioAccount (calcGo cur cfg) (accountGo a) = .ok (Performance.isPortfolio cfg a) := by
  unfold performance.Calculator.isPortfolioAccount Performance.isPortfolio
  simp only [IsAL_agrees, calcGo, callFn1, Name_agrees, Outcome.bind]
  cases a.isAL <;> simp

/-! ## `ComputeValues` -/

/-- `amounts.CommodityKey` of a model commodity -/
def ckeyGo (cur : String → Bool) (c : Knut.Commodity) : amounts.Key := amounts.CommodityKey (commodityGo cur c)

theorem ckeyGo_inj (cur : String → Bool) : ∀ a b : Knut.Commodity, ckeyGo cur a = ckeyGo cur b → a = b := by
  intro a b h
  exact commodityGo_inj cur (congrArg amounts.Key.Commodity h)

/-- the captured map `values` (keyed by `CommodityKey`) against the model's running values -/
abbrev VEq (cur : String → Bool) (g : amounts.Amounts) (m : AMap Knut.Commodity Rat) : Prop := MEquiv (ckeyGo cur) g m

/-- the state of the closures of `ComputeValues` against the model's `PState.values` and `PState.prev` -/
structure CVRel (cur : String → Bool) (g : performance.Calculator.ComputeValues.State) (vals prev : AMap Knut.Commodity Rat) : Prop where
  values : VEq cur g.values vals
  prev : PEq cur g.prev prev

/-- the initial state: nothing valued yet, `prev` is the nil map -/
theorem ComputeValues_init_agrees (cur : String → Bool) (cg : performance.Calculator) :
    CVRel cur (performance.Calculator.ComputeValues.init cg) [] [] :=
  ⟨MEquiv_nil _, MEquiv_nil _⟩

/-- the closures that `ComputeValues` sets are exactly these three; it calls nothing untranslated -/
example : performance.Calculator.ComputeValues.callbacks = ["DayStart", "Posting", "DayEnd"] := rfl
example : performance.Calculator.ComputeValues.externals = [] := rfl
example : performance.Calculator.ComputeValues.nonNil = [] := rfl

/-- **`ComputeValues.DayStart`**: the day gets a `Performance` if it has none, and `V0` = the values at the end of the previous day;
never a panic -/
theorem ComputeValues_DayStart_agrees (st : performance.Calculator.ComputeValues.State) (d : journal.Day) :
    performance.Calculator.ComputeValues.DayStart st d =
      .ok (st, { d with Performance := some { (d.Performance.getD GoZero.zero) with V0 := st.prev } }, none) := by
  unfold performance.Calculator.ComputeValues.DayStart
  cases hp : d.Performance <;> simp [Outcome.bind, hp]

/-- `MEquiv` under `m[k] = v` on both sides -/
theorem MEquiv_set {κ κ' : Type} [DecidableEq κ] [DecidableEq κ'] {conv : κ' → κ} (hinj : ∀ a b, conv a = conv b → a = b)
    {g : AMap κ Rat} {m : AMap κ' Rat} (h : MEquiv conv g m) (c : κ') (v : Rat) :
    MEquiv conv (AMap.set g (conv c) v) (AMap.set m c v) := by
  refine ⟨?_, ?_, nodupKeys_set _ _ _ h.gnodup, nodupKeys_set _ _ _ h.mnodup⟩
  · intro c'
    simp only [AMap.find?_set, h.lookup]
    by_cases e : c = c'
    · subst e; simp
    · have : conv c ≠ conv c' := fun x => e (hinj _ _ x)
      simp [this, e]
  · intro k hk
    rw [AMap.find?_set] at hk
    by_cases e : conv c = k
    · exact ⟨c, e.symm⟩
    · simp only [e, if_false] at hk
      exact h.keys k hk

/-- `MEquiv` under `delete(m, k)` on both sides -/
theorem MEquiv_erase {κ κ' : Type} [DecidableEq κ] [DecidableEq κ'] {conv : κ' → κ} (hinj : ∀ a b, conv a = conv b → a = b)
    {g : AMap κ Rat} {m : AMap κ' Rat} (h : MEquiv conv g m) (c : κ') :
    MEquiv conv (AMap.erase g (conv c)) (AMap.erase m c) := by
  refine ⟨?_, ?_, nodupKeys_erase _ _ h.gnodup, nodupKeys_erase _ _ h.mnodup⟩
  · intro c'
    simp only [AMap.find?_erase, h.lookup]
    by_cases e : c = c'
    · subst e; simp
    · have : conv c ≠ conv c' := fun x => e (hinj _ _ x)
      simp [this, e]
  · intro k hk
    rw [AMap.find?_erase] at hk
    by_cases e : conv c = k
    · simp [e] at hk
    · simp only [e, if_false] at hk
      exact h.keys k hk

/-- **`ComputeValues.Posting`** = `valuesStep`: the value of a posting on a portfolio account in a selected commodity is added to the
commodity's running value, an entry that becomes zero is deleted; never an error, never a panic -/
theorem ComputeValues_Posting_agrees (cur : String → Bool) (cfg : Performance.Cfg) {g : performance.Calculator.ComputeValues.State}
    {vals prev : AMap Knut.Commodity Rat} (h : CVRel cur g vals prev) (tg : transaction.Transaction) (src : Ref) (p : Knut.Posting) :
    ∃ g', performance.Calculator.ComputeValues.Posting (calcGo cur cfg) g tg (postingGo cur src p) = .ok (g', none) ∧
      CVRel cur g' (Performance.valuesStep cfg vals p) prev := by
  unfold performance.Calculator.ComputeValues.Posting Performance.valuesStep
  simp only [postingGo, isPortfolioAccount_agrees]
  simp only [calcGo, callFn1, Outcome.bind, commodity.Commodity.Name, commodityGo]
  by_cases hc : cfg.commodityFilter p.commodity = true
  · simp only [hc, Bool.not_true, Bool.false_eq_true, if_false]
    by_cases hp : Performance.isPortfolio cfg p.account = true
    · simp only [hp, Bool.not_true, Bool.false_eq_true, if_false]
      have hk : amounts.CommodityKey { name := p.commodity, IsCurrency := cur p.commodity } = ckeyGo cur p.commodity := rfl
      have hget : AMap.get g.values (ckeyGo cur p.commodity) 0 = AMap.get vals p.commodity 0 := by
        simp only [AMap.get, h.values.lookup]
      simp only [hk, amounts.Amounts.Add, Decimal.Add, Decimal.IsZero, AMap.get_set, if_true, zero_rat, hget]
      by_cases hz : AMap.get vals p.commodity 0 + p.value = 0
      · simp only [hz, decide_true, if_true]
        refine ⟨_, rfl, ?_, h.prev⟩
        have h1 := MEquiv_erase (ckeyGo_inj cur) (MEquiv_set (ckeyGo_inj cur) h.values p.commodity 0) p.commodity
        refine ⟨?_, h1.keys, h1.gnodup, nodupKeys_erase _ _ h.values.mnodup⟩
        intro c
        rw [h1.lookup c, AMap.find?_erase, AMap.find?_erase, AMap.find?_set]
        by_cases e : p.commodity = c <;> simp [e]
      · simp only [hz, decide_false, Bool.false_eq_true, if_false]
        exact ⟨_, rfl, MEquiv_set (ckeyGo_inj cur) h.values _ _, h.prev⟩
    · simp only [hp, Bool.not_false, if_true]
      exact ⟨_, rfl, h⟩
  · simp only [hc, Bool.not_false, if_true]
    exact ⟨_, rfl, h⟩

/-- the loop of `ComputeValues.DayEnd` in ANY order `o` of (some of) the keys of `values` without repetition: every key adds its value
to the entry of its commodity in `prev` -/
theorem ComputeValues_range_agrees (cur : String → Bool) (g : amounts.Amounts) (vals : AMap Knut.Commodity Rat) (hv : VEq cur g vals) :
    ∀ (o : List amounts.Key) (acc : AMap commodity.Commodity Rat), o.Nodup → (∀ k ∈ o, (AMap.find? g k).isSome) → NodupKeys acc →
      (∀ k ∈ o, AMap.find? acc k.Commodity = none) →
      (∀ k, (AMap.find? acc k).isSome → ∃ c, k = commodityGo cur c) →
      ∃ r, performance.Calculator.ComputeValues.DayEnd.range1 g o acc = .ok r ∧ NodupKeys r ∧
        (∀ k, (AMap.find? r k).isSome → ∃ c, k = commodityGo cur c) ∧
        ∀ c, AMap.find? r (commodityGo cur c) =
          if ckeyGo cur c ∈ o then AMap.find? vals c else AMap.find? acc (commodityGo cur c) := by
  intro o
  induction o with
  | nil =>
    intro acc _ _ hn _ hk
    exact ⟨acc, rfl, hn, hk, fun c => by simp⟩
  | cons k o ih =>
    intro acc ho hsub hn hfresh hk
    have ho' : k ∉ o ∧ o.Nodup := by simpa using ho
    unfold performance.Calculator.ComputeValues.DayEnd.range1
    have hks := hsub k (List.mem_cons_self ..)
    obtain ⟨v, hf⟩ := Option.isSome_iff_exists.1 hks
    simp only [hf, Option.isSome_some, Bool.not_true, Bool.false_eq_true, if_false, F64.ofDecimal2_fst, AMap.get, Option.getD_some, zero_rat]
    obtain ⟨c0, hc0⟩ := hv.keys k hks
    have hkc : k.Commodity = commodityGo cur c0 := by rw [hc0]; rfl
    have hacc0 : AMap.find? acc k.Commodity = none := hfresh k (List.mem_cons_self ..)
    simp only [hacc0, Option.getD_none, Rat.zero_add]
    have hv0 : AMap.find? vals c0 = some v := by rw [← hv.lookup c0, ← hc0, hf]
    -- another key of the order has another commodity
    have hother : ∀ k' ∈ o, k.Commodity ≠ k'.Commodity := by
      intro k' hk' e
      obtain ⟨c1, hc1⟩ := hv.keys k' (hsub k' (List.mem_cons_of_mem _ hk'))
      have a2 : k'.Commodity = commodityGo cur c1 := by rw [hc1]; rfl
      have e' : commodityGo cur c0 = commodityGo cur c1 := by rw [← hkc, ← a2, e]
      have : k = k' := by rw [hc0, hc1, commodityGo_inj cur e']
      exact ho'.1 (this ▸ hk')
    obtain ⟨r, hr, hrn, hrk, hrl⟩ := ih (AMap.set acc k.Commodity v) ho'.2 (fun k' hk' => hsub k' (List.mem_cons_of_mem _ hk'))
      (nodupKeys_set _ _ _ hn)
      (by
        intro k' hk'
        rw [AMap.find?_set]
        simp only [hother k' hk', if_false]
        exact hfresh k' (List.mem_cons_of_mem _ hk'))
      (by
        intro k' hk'
        rw [AMap.find?_set] at hk'
        by_cases e : k.Commodity = k'
        · exact ⟨c0, by rw [← e, hkc]⟩
        · simp only [e, if_false] at hk'
          exact hk k' hk')
    refine ⟨r, hr, hrn, hrk, ?_⟩
    intro c
    rw [hrl c, AMap.find?_set]
    by_cases hck : ckeyGo cur c = k
    · have hcc : c = c0 := ckeyGo_inj cur _ _ (hck.trans hc0)
      subst hcc
      have hno : ckeyGo cur c ∉ o := hck ▸ ho'.1
      simp [hck, hv0, hkc]
    · have hne : k.Commodity ≠ commodityGo cur c := by
        intro e
        apply hck
        rw [hc0]
        have : commodityGo cur c0 = commodityGo cur c := by rw [← hkc, e]
        rw [commodityGo_inj cur this]
      simp [List.mem_cons, hck, hne]

/-- **`ComputeValues.DayEnd`** for EVERY iteration order `o` of the keys of `values` (each key once): `prev` and the day's `V1` become the
running values, commodity by commodity (`PEq` with the model's values); a day without `Performance` (no `DayStart` before) is Go's
nil-pointer panic -/
theorem ComputeValues_DayEnd_agrees (cur : String → Bool) {g : performance.Calculator.ComputeValues.State}
    {vals prev : AMap Knut.Commodity Rat} (h : CVRel cur g vals prev) (d : journal.Day) (o : List amounts.Key) (ho : o.Nodup)
    (hall : ∀ k, k ∈ o ↔ (AMap.find? g.values k).isSome) :
    match d.Performance with
    | none => performance.Calculator.ComputeValues.DayEnd g d o = .panic nilDeref
    | some p => ∃ v1, PEq cur v1 vals ∧
        performance.Calculator.ComputeValues.DayEnd g d o =
          .ok ({ g with prev := v1 }, { d with Performance := some { p with V1 := v1 } }, none) := by
  obtain ⟨r, hr, hrn, hrk, hrl⟩ := ComputeValues_range_agrees cur g.values vals h.values o [] ho (fun k hk => (hall k).1 hk)
    nodupKeys_nil (fun _ _ => rfl) (fun k hk => by simp at hk)
  have hpe : PEq cur r vals := by
    refine ⟨?_, hrk, hrn, h.values.mnodup⟩
    intro c
    rw [hrl c]
    by_cases hm : ckeyGo cur c ∈ o
    · simp [hm]
    · have : AMap.find? vals c = none := by
        have h2 : ¬ (AMap.find? g.values (ckeyGo cur c)).isSome := fun hs => hm ((hall _).2 hs)
        rw [h.values.lookup c] at h2
        simpa using h2
      simp [hm, this]
  unfold performance.Calculator.ComputeValues.DayEnd
  cases hp : d.Performance with
  | none => simp [hr, Outcome.bind]
  | some p => exact ⟨r, hpe, by simp [hr, Outcome.bind]⟩

end Knut.FactsAgree.TransPerformance
