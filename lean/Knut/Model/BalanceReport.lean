import Knut.Model.Balance
import Knut.Model.Table
/-!
# Model of `lib/reports/balance` (Report, Renderer): from the log of report inserts to the table

The multimap tree of the Go code is represented by the set of account paths that occur (every
non-empty prefix of a mapped account with an entry is a node); the pre-order traversal with sorted
siblings is `walk`.
-/
namespace Knut
open Knut.Table (Cell Table)

structure RenderCfg where
  valuation : Option Commodity := none
  showCommodities : String → Bool := fun _ => false   -- `-s`, matched against the row's account name
  hasShowCommodities : Bool := false                  -- `len(CommodityDetails) > 0`
  sortAlpha : Bool := false
  diff : Bool := false
  endDates : List Int

namespace BalanceReport

def pad (n width : Nat) : String :=
  let s := toString n
  String.ofList (List.replicate (width - s.length) '0') ++ s

/-- `time.Format("2006-01-02")` for years 0..9999 -/
def fmtDate (z : Int) : String :=
  s!"{pad (Date.year z).toNat 4}-{pad (Date.month z).toNat 2}-{pad (Date.day z).toNat 2}"

def isPrefixOf (p : List String) (a : Account) : Bool := p.isPrefixOf a.segments

/-- own entries of the node at `path` -/
def own (es : List Entry) (path : List String) : List Entry := es.filter (fun e => e.account.segments = path)

/-- distinct next segments below `path` -/
def childSegs (es : List Entry) (path : List String) : List String :=
  (es.filterMap (fun e =>
    if path.isPrefixOf e.account.segments then (e.account.segments.drop path.length).head? else none)).eraseDups

def sumAmounts (es : List Entry) : Rat := (es.map (·.amount)).sum

/-- `Report.SortWeighted.computeWeights`: `-|Σ own valued amounts| + Σ children` -/
def weight (valued : Bool) (es : List Entry) : Nat → List String → Rat
  | 0, _ => 0
  | fuel + 1, path =>
    let w := if valued then -(Rat.abs (sumAmounts (own es path))) else 0
    (childSegs es path).foldl (fun acc s => acc + weight valued es fuel (path ++ [s])) w

def typeOrd (s : String) : Nat := match AccountType.ofName s with | some t => t.ord | none => 9

/-- sibling order: level 1 by account type; below by weight then name (weighted) or by name (alpha) -/
def sibLE (rc : RenderCfg) (es : List Entry) (fuel : Nat) (path : List String) (a b : String) : Bool :=
  if path.isEmpty then typeOrd a ≤ typeOrd b
  else if rc.sortAlpha then a ≤ b
  else
    let wa := weight rc.valuation.isSome es fuel (path ++ [a])
    let wb := weight rc.valuation.isSome es fuel (path ++ [b])
    if wa < wb then true else if wb < wa then false else a ≤ b

def sortedChildren (rc : RenderCfg) (es : List Entry) (fuel : Nat) (path : List String) : List String :=
  (childSegs es path).mergeSort (sibLE rc es fuel path)

/-- pre-order walk: (path, indent) of every node below `path` -/
def walk (rc : RenderCfg) (es : List Entry) : Nat → List String → Nat → List (List String × Nat)
  | 0, _, _ => []
  | fuel + 1, path, indent =>
    (sortedChildren rc es fuel path).flatMap (fun s =>
      (path ++ [s], indent) :: walk rc es fuel (path ++ [s]) (indent + 2))

def maxDepth (es : List Entry) : Nat := es.foldl (fun m e => max m e.account.segments.length) 0

/-- `Amounts.SumBy` by (date, commodity?) with zero sums removed: the keys that remain, as commodities -/
def valsCommodities (es : List Entry) (byCommodity : Bool) : List (Option Commodity) :=
  let keys := (es.map (fun e => (e.date, if byCommodity then some e.commodity else none))).eraseDups
  let live := keys.filter (fun k =>
    sumAmounts (es.filter (fun e => e.date = k.1 && (if byCommodity then some e.commodity else none) = k.2)) ≠ 0)
  let cs := (live.map (·.2)).eraseDups
  cs.mergeSort (fun a b => match a, b with
    | some x, some y => x ≤ y
    | none, _ => true
    | _, none => false)

def cellAt (es : List Entry) (byCommodity : Bool) (c : Option Commodity) (d : Int) : Rat :=
  sumAmounts (es.filter (fun e => e.date = some d && (if byCommodity then some e.commodity else none) = c))

/-- `Renderer.render`: the rows for one name and one amounts table -/
def renderVals (rc : RenderCfg) (drawComm : Bool) (indent : Nat) (name : String) (neg : Bool)
    (coms : List (Option Commodity)) (cell : Option Commodity → Int → Rat) : List (List Cell) :=
  let width := 1 + (if drawComm then 1 else 0) + rc.endDates.length
  let nameCell := Cell.text name.toList .left indent
  if coms.isEmpty then [nameCell :: List.replicate (width - 1) .empty]
  else
    coms.zipIdx.map (fun (c, i) =>
      let first := if i = 0 then nameCell else Cell.empty
      let commCell : List Cell :=
        if drawComm then
          [match c with
           | some x => Cell.text x.toList .left 0
           | none => match rc.valuation with
             | some v => Cell.text v.toList .left 0
             | none => Cell.empty]
        else []
      let nums := (rc.endDates.foldl (fun (acc : List Cell × Rat) d =>
          let v := cell c d
          let (shown, total) := if rc.diff then (v, acc.2) else (acc.2 + v, acc.2 + v)
          (acc.1 ++ [Cell.num (if neg then -shown else shown)], total)) ([], 0)).1
      first :: commCell ++ nums)

def nodeRows (rc : RenderCfg) (drawComm : Bool) (es : List Entry) (neg : Bool) (node : List String × Nat) : List (List Cell) :=
  let (path, indent) := node
  let acc : Account := ⟨path⟩
  let byCom := rc.valuation.isNone || rc.showCommodities acc.name
  let mine := own es path
  renderVals rc drawComm indent (path.getLast?.getD "") neg (valsCommodities mine byCom) (cellAt mine byCom)

/-- `Renderer.Render` -/
def table (rc : RenderCfg) (entries : List Entry) : Table :=
  let drawComm := rc.valuation.isNone || rc.hasShowCommodities
  let n := rc.endDates.length
  let width := 1 + (if drawComm then 1 else 0) + n
  let cols := if drawComm then Table.groupColumns 0 [1, 1, n] else Table.groupColumns 0 [1, n]
  let sep : List Cell := List.replicate width .sep
  let empty : List Cell := List.replicate width .empty
  let header : List Cell :=
    Cell.text "Account".toList .center 0 ::
      (if drawComm then [Cell.text "Comm".toList .center 0] else []) ++
      rc.endDates.map (fun d => Cell.text (fmtDate d).toList .center 0)
  let al := entries.filter (fun e => e.account.isAL)
  let eie := entries.filter (fun e => !e.account.isAL)
  let byCom := rc.valuation.isNone
  let sect (es : List Entry) (neg : Bool) : List (List Cell) :=
    (sortedChildren rc es (maxDepth es) []).flatMap (fun top =>
      ((([top], 0) :: walk rc es (maxDepth es) [top] 2).flatMap (nodeRows rc drawComm es neg)) ++ [empty])
  let totalRows (name : String) (es : List Entry) (neg : Bool) : List (List Cell) :=
    renderVals rc drawComm 0 name neg (valsCommodities es byCom) (cellAt es byCom)
  -- Delta: `totalAL.Plus(totalEIE)` keeps the keys of both totals even where the sum is zero
  let deltaComs := ((valsCommodities al byCom) ++ (valsCommodities eie byCom)).eraseDups.mergeSort (fun a b => match a, b with
    | some x, some y => x ≤ y
    | none, _ => true
    | _, none => false)
  let rows := [sep, header, sep] ++ sect al false ++ totalRows "Total (A+L)" al false ++ [sep] ++
    sect eie true ++ totalRows "Total (E+I+E)" eie true ++ [sep] ++
    renderVals rc drawComm 0 "Delta" false deltaComs (cellAt entries byCom) ++ [sep]
  ⟨cols, rows⟩

end BalanceReport
end Knut
