import Knut.Wire
import Knut.Model.Table
import Knut.Spec.TableSpec
/-!
Driver ops for C17 (text / CSV table rendering, monitors).

A table is sent as the sequence of API calls that builds it:
`R` AddRow · `S` AddSeparatorRow · `E` AddEmptyRow · `e` AddEmpty · `f` FillEmpty ·
`t<align>:<hex>` AddText · `i<indent>:<hex>` AddIndented · `d<hex decimal literal>` AddDecimal.

* `c17text <k> <digits> <groups> op*`  → `ok <hex text>` | `panic`
* `c17csv <groups> op*`                → `ok <hex csv>`
* `c17mon <k> <digits> <groups> <hex real text> op*` → `ok` | `skip <why>` | `inexact <row>` | `fail <predicate> …`
* `c17csvmon <groups> <hex real csv> op*` → `ok` | `fail`
* `c17lines <n> <hex real text>` → `ok` | `fail <predicate>` (the part of the property that needs no table: the output is lines
  plus a final blank line, all lines of one width, `n+1` character columns carry a separator on every line)
* `c17num <k> <digits> <hex decimal> <hex cell text>` → `ok` | `inexact` | `fail` (one numeric cell text against the predicate)
-/
namespace Knut.Driver.C17
open Knut Knut.Wire Knut.Dec Knut.Table Knut.Table.Spec

def parseGroups (s : String) : Option (List Nat) :=
  if s = "-" then some [] else (splitOn s ',').mapM (fun f => f.toNat?)

def alignOfNat : Nat → Option Align
  | 0 => some .left | 1 => some .right | 2 => some .center | _ => none

def splitColon (s : String) : Option (String × String) :=
  match splitOn s ':' with
  | [a, b] => some (a, b)
  | _ => none

/-- apply one API call; `none` = malformed request or an unmodelled call -/
def applyOp (t : Table) (op : String) : Option Table :=
  match op.toList with
  | ['R'] => some t.addRow
  | ['S'] => some t.addSeparatorRow
  | ['E'] => some t.addEmptyRow
  | ['e'] => t.addCell .empty
  | ['f'] => t.fillEmpty
  | 't' :: rest => do
    let (a, h) ← splitColon (String.ofList rest)
    let a ← a.toNat?.bind alignOfNat
    let s ← unhexStr h
    t.addCell (.text s.toList a 0)
  | 'i' :: rest => do
    let (ind, h) ← splitColon (String.ofList rest)
    let ind ← ind.toInt?
    let s ← unhexStr h
    t.addCell (.text s.toList .left ind)
  | 'd' :: rest => do
    let s ← unhexStr (String.ofList rest)
    let d ← parseDec s
    t.addCell (.num d)
  | _ => none

def build (groups : String) (ops : List String) : Option Table := do
  let g ← parseGroups groups
  ops.foldlM applyOp (Table.new g)

def parseFlags (k digits : String) : Option Renderer := do
  let k ← (if k = "1" then some true else if k = "0" then some false else none)
  let d ← digits.toInt?
  pure ⟨k, d⟩

/-- common row length, if there is one -/
def rowLen (t : Table) : Option Nat :=
  match t.rows with
  | [] => some t.width
  | row :: rest => if rest.all (fun x => x.length == row.length) then some row.length else none

def firstBadRow (exact : Bool) (r : Renderer) (W : List Nat) : List (List Cell) → List (List Char) → Nat → Nat
  | row :: rows, l :: ls, i => if conformsRow exact r W row l then firstBadRow exact r W rows ls (i + 1) else i
  | _, _, i => i

def monitorText (r : Renderer) (t : Table) (out : List Char) : String :=
  match tableLines out with
  | none => "fail tableLines"
  | some ls =>
    if ls.length ≠ t.rows.length then
      (if plain t then "fail line-count" else "skip not-plain")
    else
    match rowLen t with
    | none => "skip non-uniform"
    | some n =>
      if !uniform n t then "skip non-uniform" else
      if !plain t then "skip not-plain" else
      if !rectLines ls then "fail rectLines" else
      if !alignedOK n ls then "fail alignedOK" else
      let W := match inferW n ls with
        | some W => W
        | none => ((finalWidths r t).getD []).take n
      if conformsAll true r W t.rows ls then "ok"
      else if conformsAll false r W t.rows ls then s!"inexact {firstBadRow true r W t.rows ls 0}"
      else s!"fail conformsAll row {firstBadRow false r W t.rows ls 0}"

/-- the statements about the lines alone (`n` = number of columns the report has) -/
def monitorLines (n : Nat) (out : List Char) : String :=
  match tableLines out with
  | none => "fail tableLines"
  | some ls =>
    if !rectLines ls then "fail rectLines"
    else if !alignedOK n ls then "fail alignedOK"
    else "ok"

def handleStr (fields : List String) : String :=
  match fields with
  | "c17text" :: k :: digits :: groups :: ops =>
    match parseFlags k digits, build groups ops with
    | some r, some t =>
      match renderText r t with
      | .ok s => "ok " ++ hexStr (String.ofList s)
      | .panic _ => "panic"
    | _, _ => "bad-op"
  | "c17csv" :: groups :: ops =>
    match build groups ops with
    | some t => "ok " ++ hexStr (String.ofList (renderCSV t))
    | none => "bad-op"
  | "c17mon" :: k :: digits :: groups :: out :: ops =>
    match parseFlags k digits, build groups ops, unhexStr out with
    | some r, some t, some out => monitorText r t out.toList
    | _, _, _ => "bad-op"
  | "c17csvmon" :: groups :: out :: ops =>
    match build groups ops, unhexStr out with
    | some t, some out => if csvTextOK t out.toList then "ok" else "fail csvTextOK"
    | _, _ => "bad-op"
  | ["c17lines", n, out] =>
    match n.toNat?, unhexStr out with
    | some n, some out => monitorLines n out.toList
    | _, _ => "bad-op"
  | ["c17num", k, digits, d, cell] =>
    match parseFlags k digits, (unhexStr d).bind parseDec, unhexStr cell with
    | some r, some d, some cell =>
      if cellShows true r (.num d) cell.toList then "ok"
      else if cellShows false r (.num d) cell.toList then "inexact"
      else "fail cellShows"
    | _, _, _ => "bad-op"
  | _ => "no-such-op"

def handle (fields : List String) : Option String :=
  let r := handleStr fields
  if r = "no-such-op" then none else some r

end Knut.Driver.C17
