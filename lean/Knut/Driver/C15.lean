import Knut.Wire
import Knut.Model.Infer
import Knut.Spec.InferSpec
/-! Driver ops for C15 (`knut infer`: tokenizer, training counts, inference + formatting, monitor). Glue only. -/
namespace Knut.Driver.C15
open Knut Knut.Wire Knut.Syntax Knut.Infer

def bytesHex (b : List UInt8) : String := hexBytes (ByteArray.mk b.toArray)

def unhexList (s : String) : Option Bytes := (unhexBytes s).map (·.toList)

/-- a list of byte strings as one field: hex strings joined by `,` (`-` = the empty string, `.` = the empty list) -/
def hexList (l : List Bytes) : String := if l.isEmpty then "." else ",".intercalate (l.map bytesHex)

def unhexLists (s : String) : Option (List Bytes) := if s = "." then some [] else (splitOn s ',').mapM unhexList

/-- `c15uni`: the runes of `[lo, hi)` that are not their own lower case (`r>l`) or are spaces (`r`) -/
def uniDump (lo hi : Nat) : String :=
  let parts := (List.range (hi - lo)).foldl (fun (acc : Array String) i =>
    let r := lo + i
    let acc := if toLowerRune r ≠ r then acc.push s!"{r}>{toLowerRune r}" else acc
    if isSpace r then acc.push s!"{r}" else acc) #[]
  if parts.isEmpty then "-" else ",".intercalate parts.toList

def showCounts (m : AMap Bytes Nat) : String :=
  let ks := sortU m.keys
  if ks.isEmpty then "." else ",".intercalate (ks.map fun k => bytesHex k ++ "=" ++ toString (m.get k 0))

/-- the three count tables with sorted keys -/
def showModel (m : Model) : String :=
  let toks := sortU m.countByTokenAndAccount.keys
  let tt := if toks.isEmpty then "." else ";".intercalate (toks.map fun t => bytesHex t ++ ":" ++ showCounts (m.countByTokenAndAccount.get t []))
  s!"{m.count} {showCounts m.countByAccount} {tt}"

/-- parse the training files and collect their transactions -/
def trainTxs (files : List Bytes) : Except String (List TTx) := do
  let fs ← files.mapM fun text => match parseText "t" text with
    | .ok f => .ok (text, f)
    | .error _ => .error "rejected"
  let txss ← fs.mapM fun tf => match fileTxs tf.1 tf.2 with
    | some l => .ok l
    | none => .error "panic"
  pure txss.flatten

/-- candidates the float evaluation of the logarithm sum may pick: those whose exact score is within `10⁻⁹` (relative) of
the best one, except a candidate that reads exactly the same numbers as an earlier one (same count, same lookups: the
float scores are then identical and `score > max` keeps the earlier) -/
def acceptable (m : Model) (desc : Bytes) (b : BookingV) (other : Bytes) : List Bytes :=
  let tokens := tokenize desc b.commodity b.quantity other
  let scored := ((sortU m.countByAccount.keys).filter (· ≠ other)).map fun c =>
    (c, m.scoreCandidate exactScorer c tokens, (m.countByAccount.get c 0, tokens.map fun t => m.lookupTA t c))
  let mx := scored.foldl (fun a p => if a < p.2.1 then p.2.1 else a) 0
  let near := scored.filter fun p => decide (mx * (1 - (1 : Rat) / 1000000000) ≤ p.2.1)
  let rec dedup (seen : List (Nat × List (Option Nat))) : List (Bytes × Rat × Nat × List (Option Nat)) → List Bytes
    | [] => []
    | p :: rest => if seen.contains p.2.2 then dedup seen rest else p.1 :: dedup (p.2.2 :: seen) rest
  dedup [] near

/-- number of decisions of `inferBooking` with more than one acceptable candidate -/
def nearTies (m : Model) (desc : Bytes) (b : BookingV) : Nat :=
  let n1 := if b.credit = m.account then (if (acceptable m desc b b.debit).length > 1 then 1 else 0) else 0
  let b1 := m.inferBooking exactScorer desc b
  let n2 := if b.debit = m.account then (if (acceptable m desc { b with credit := b1.credit } b1.credit).length > 1 then 1 else 0) else 0
  n1 + n2

def nearTiesDir (m : Model) : DirV → Nat
  | .transaction _ _ _ desc bs => (bs.map (nearTies m desc)).sum
  | _ => 0

/-- is `w` a possible result of `Infer` on `b` when every decision may take any acceptable candidate? -/
def bookingTol (m : Model) (desc : Bytes) (b w : BookingV) : Bool :=
  let okC :=
    if b.credit = m.account then
      let acc := acceptable m desc b b.debit
      if acc.isEmpty then w.credit == b.credit else acc.contains w.credit
    else w.credit == b.credit
  let b1 := { b with credit := w.credit }
  let okD :=
    if b.debit = m.account then
      let acc := acceptable m desc b1 b1.credit
      if acc.isEmpty then w.debit == b.debit else acc.contains w.debit
    else w.debit == b.debit
  okC && okD && w.quantity == b.quantity && w.commodity == b.commodity

def dirTol (m : Model) : DirV → DirV → Bool
  | .transaction a p d desc bs, .transaction a' p' d' desc' bs' =>
    a == a' && p == p' && d == d' && desc == desc' && bs.length == bs'.length && (bs.zip bs').all fun x => bookingTol m desc x.1 x.2
  | .transaction .., _ => false
  | d, d' => d == d'

def handleStr (fields : List String) : String :=
  match fields with
  | ["c15uni", lo, hi] =>
    match lo.toNat?, hi.toNat? with
    | some lo, some hi => uniDump lo hi
    | _, _ => "bad-op"
  | ["c15tok", desc, com, qty, other] =>
    match unhexList desc, unhexList com, unhexList qty, unhexList other with
    | some d, some c, some q, some o => hexList (tokenize d c q o)
    | _, _, _, _ => "bad-op"
  | ["c15train", ph, files] =>
    match unhexList ph, unhexLists files with
    | some ph, some files =>
      match trainTxs files with
      | .ok txs => "ok " ++ showModel (train ph txs) ++ " " ++ hexList (sortU (Spec.Infer.trainingAccounts ph txs))
      | .error e => e
    | _, _ => "bad-op"
  | ["c15infer", ph, path, target, files] =>
    match unhexList ph, unhexStr path, unhexList target, unhexLists files with
    | some ph, some path, some target, some files =>
      match inferCmd exactScorer ph (files.map fun t => ("t", t)) path target with
      | .rejected => "rejected"
      | .panic => "panic"
      | .written out =>
        -- the number of near ties on the way (for the tolerance protocol)
        let ties := match trainTxs files, parseText path target with
          | .ok txs, .ok f =>
            let m := train ph txs
            match f.directives.mapM (viewDirective target) with
            | some vs => (vs.map (nearTiesDir m)).sum
            | none => 0
          | _, _ => 0
        s!"ok {bytesHex out} {ties}"
    | _, _, _, _ => "bad-op"
  | ["c15tol", ph, path, target, implOut, files] =>
    match unhexList ph, unhexStr path, unhexList target, unhexList implOut, unhexLists files with
    | some ph, some path, some target, some out, some files =>
      match trainTxs files, parseText path target, parseText path out with
      | .ok txs, .ok f, .ok g =>
        let m := train ph txs
        match f.directives.mapM (viewDirective target), g.directives.mapM (viewDirective out) with
        | some vs, some ws =>
          if vs.length == ws.length && (vs.zip ws).all (fun x => dirTol m x.1 x.2) then
            if formatLoopV target (paddingOf ws) 0 (f.directives.zip ws) == some out then "ok" else "fail layout"
          else "fail choice"
        | _, _ => "fail view"
      | _, _, _ => "fail parse"
    | _, _, _, _, _ => "bad-op"
  | ["c15mon", ph, path, accounts, fmt, out] =>
    match unhexList ph, unhexStr path, unhexLists accounts, unhexList fmt, unhexList out with
    | some ph, some path, some accounts, some fmt, some out =>
      if Spec.Infer.inferOK ph accounts path fmt out then "ok"
      else
        match parseText path fmt, parseText path out with
        | .ok f, .ok g =>
          let views := match f.directives.mapM (viewDirective fmt), g.directives.mapM (viewDirective out) with
            | some vs, some ws => Spec.Infer.viewsOK ph accounts vs ws
            | _, _ => false
          let gaps := Spec.Syntax.gapsOf fmt 0 (f.directives.map (·.range)) == Spec.Syntax.gapsOf out 0 (g.directives.map (·.range))
          let layout := format out g == some out
          s!"fail fields={views} gaps={gaps} layout={layout}"
        | .error _, _ => "fail formatted-target-does-not-parse"
        | _, .error _ => "fail output-does-not-parse"
    | _, _, _, _, _ => "bad-op"
  | _ => "no-such-op"

def handle (fields : List String) : Option String :=
  let r := handleStr fields
  if r = "no-such-op" then none else some r

end Knut.Driver.C15
