import Knut.Proofs.SyntaxWF
/-!
# The main loop of `ParseFile`: directives in order, gaps blank or comments, lossless cover (helper lemmas for C07)
-/
namespace Knut.Syntax
open Knut.Utf8 Knut.Spec.Syntax
set_option linter.unusedVariables false

/-! ### slices -/

theorem slice_self (text : List UInt8) (a : Nat) : slice text a a = [] := by simp [slice]

theorem slice_append (text : List UInt8) {a b c : Nat} (h1 : a ≤ b) (h2 : b ≤ c) :
    slice text a c = slice text a b ++ slice text b c := by
  unfold slice
  have e : text.drop b = (text.drop a).drop (b - a) := by rw [List.drop_drop]; congr 1; omega
  rw [e]
  have : c - a = (b - a) + (c - b) := by omega
  rw [this, List.take_add]

theorem slice_to_end (text : List UInt8) (a : Nat) : slice text a text.length = text.drop a := by
  unfold slice
  rw [List.take_of_length_le]
  simp

/-! ### lines -/

theorem splitLines_ne_nil (g : List UInt8) : splitLines g ≠ [] := by
  induction g with
  | nil => simp [splitLines]
  | cons b bs ih =>
    unfold splitLines
    split
    · simp
    · split <;> simp

theorem splitLines_nl (a b : List UInt8) : splitLines (a ++ 10 :: b) = splitLines a ++ splitLines b := by
  induction a with
  | nil => simp [splitLines]
  | cons x xs ih =>
    simp only [List.cons_append]
    by_cases hx : x = 10
    · subst hx
      simp [splitLines, ih]
    · rw [splitLines, splitLines]
      simp only [hx, if_false]
      rw [ih]
      cases h : splitLines xs with
      | nil => exact absurd h (splitLines_ne_nil xs)
      | cons l ls => simp

theorem splitLines_no_nl {x : List UInt8} (h : (10 : UInt8) ∉ x) : splitLines x = [x] := by
  induction x with
  | nil => simp [splitLines]
  | cons b bs ih =>
    simp only [List.mem_cons, not_or] at h
    rw [splitLines]
    have : b ≠ 10 := fun e => h.1 e.symm
    simp only [this, if_false]
    rw [ih h.2]

theorem gapOK_nl (a b : List UInt8) : gapOK (a ++ 10 :: b) = (gapOK a && gapOK b) := by
  simp [gapOK, splitLines_nl, List.all_append]

theorem gapOK_nil : gapOK [] = true := by simp [gapOK, splitLines, lineOK]

theorem gapOK_line {x : List UInt8} (h : (10 : UInt8) ∉ x) : gapOK x = lineOK x := by
  simp [gapOK, splitLines_no_nl h]

/-- empty or ending in a newline -/
def NL (g : List UInt8) : Prop := g = [] ∨ ∃ a, g = a ++ [10]

theorem gapOK_snoc_line {g x : List UInt8} (hg : gapOK g = true) (hn : NL g) (hx : lineOK x = true) (h10 : (10 : UInt8) ∉ x) :
    gapOK (g ++ x) = true ∧ gapOK (g ++ x ++ [10]) = true := by
  have h1 : gapOK (g ++ x) = true := by
    rcases hn with hn | ⟨a, hn⟩
    · subst hn; simpa [gapOK_line h10] using hx
    · subst hn
      have : gapOK a = true := by
        have := hg
        rw [gapOK_nl] at this
        simp only [Bool.and_eq_true] at this
        exact this.1
      rw [List.append_assoc, List.singleton_append, gapOK_nl, this, gapOK_line h10, hx]
      rfl
  refine ⟨h1, ?_⟩
  rw [gapOK_nl, h1, gapOK_nil]
  rfl

theorem NL_snoc (g : List UInt8) : NL (g ++ [10]) := Or.inr ⟨g, rfl⟩

theorem lineOK_blank {w : List UInt8} (h : ∀ b ∈ w, isBlankByte b = true) : lineOK w = true ∧ (10 : UInt8) ∉ w := by
  constructor
  · simp only [lineOK, Bool.or_eq_true, List.all_eq_true]
    exact Or.inl h
  · intro hm
    have := h 10 hm
    simp [isBlankByte] at this

/-! ### the state and the text -/

/-- the state `s` belongs to a scan of `text`: the unread tokens spell the rest of the text -/
structure Good (text : List UInt8) (s : St) : Prop where
  drop : text.drop s.off = flat s.toks
  le : s.off ≤ text.length
  wf : ∀ t ∈ s.toks, t.wf
  pos : ∀ t ∈ s.toks, 1 ≤ t.bytes.length
  canon : ∀ t ∈ s.toks, t.invalid = false → t.canon

theorem Good.consumed {text : List UInt8} {s s' : St} {c : List Tok} (hG : Good text s) (hc : Consumed s c s') :
    Good text s' ∧ slice text s.off s'.off = flat c := by
  obtain ⟨h1, h2⟩ := hc
  have hd := hG.drop
  rw [h1, flat_append] at hd
  have hl : (text.drop s.off).length = wsum c + wsum s'.toks := by rw [hd]; simp
  simp only [List.length_drop] at hl
  refine ⟨⟨?_, by have := hG.le; omega, fun t ht => hG.wf t (by rw [h1]; exact List.mem_append_right _ ht),
    fun t ht => hG.pos t (by rw [h1]; exact List.mem_append_right _ ht),
    fun t ht => hG.canon t (by rw [h1]; exact List.mem_append_right _ ht)⟩, ?_⟩
  · have : text.drop s'.off = (text.drop s.off).drop (wsum c) := by rw [List.drop_drop, h2]
    rw [this, hd]
    simp
  · unfold slice
    rw [hd, h2]
    simp

theorem Good.ext {text : List UInt8} {s s' : St} (hG : Good text s) (h : Ext s s') : Good text s' := by
  obtain ⟨c, hc⟩ := h
  exact (hG.consumed hc).1

theorem Good.eof {text : List UInt8} {s : St} (hG : Good text s) (hE : atEOF s = true) : s.off = text.length := by
  have hd := hG.drop
  have hl := hG.le
  simp only [atEOF, List.isEmpty_iff] at hE
  rw [hE] at hd
  simp only [flat_nil, List.drop_eq_nil_iff] at hd
  omega

theorem wf_ascii_bytes {t : Tok} (h : t.wf) (hr : t.r < 128) : t.bytes = [UInt8.ofNat t.r] := h.1 hr

theorem wf_no_nl {t : Tok} (h : t.wf) (hr : t.r ≠ 10) : (10 : UInt8) ∉ t.bytes := by
  intro hm
  by_cases h128 : t.r < 128
  · rw [h.1 h128] at hm
    simp only [List.mem_cons, List.not_mem_nil, or_false] at hm
    have : (10 : UInt8).toNat = (UInt8.ofNat t.r).toNat := by rw [← hm]
    simp at this
    omega
  · have := h.2 (by omega) 10 hm
    simp at this

/-- bytes of whitespace tokens -/
theorem flat_blank {c : List Tok} (hw : ∀ t ∈ c, t.wf) (hp : ∀ t ∈ c, isWhitespace t.r = true) :
    ∀ b ∈ flat c, isBlankByte b = true := by
  induction c with
  | nil => simp
  | cons t ts ih =>
    intro b hb
    simp only [flat_cons, List.mem_append] at hb
    rcases hb with hb | hb
    · have hr := hp t List.mem_cons_self
      have hwf := hw t List.mem_cons_self
      simp only [isWhitespace, Bool.or_eq_true, beq_iff_eq] at hr
      have : t.r < 128 := by omega
      rw [hwf.1 this] at hb
      simp only [List.mem_cons, List.not_mem_nil, or_false] at hb
      subst hb
      rcases hr with (hr | hr) | hr <;> rw [hr] <;> rfl
    · exact ih (fun t ht => hw t (List.mem_cons_of_mem _ ht)) (fun t ht => hp t (List.mem_cons_of_mem _ ht)) b hb

theorem flat_no_nl {c : List Tok} (hw : ∀ t ∈ c, t.wf) (hp : ∀ t ∈ c, t.r ≠ 10) : (10 : UInt8) ∉ flat c := by
  induction c with
  | nil => simp
  | cons t ts ih =>
    simp only [flat_cons, List.mem_append, not_or]
    exact ⟨wf_no_nl (hw t List.mem_cons_self) (hp t List.mem_cons_self),
      ih (fun t ht => hw t (List.mem_cons_of_mem _ ht)) (fun t ht => hp t (List.mem_cons_of_mem _ ht))⟩

theorem Good.wf_consumed {text : List UInt8} {s s' : St} {c : List Tok} (hG : Good text s) (hc : Consumed s c s') :
    ∀ t ∈ c, t.wf := fun t ht => hG.wf t (by rw [hc.1]; exact List.mem_append_left _ ht)

/-! ### what the main loop reads between directives -/

/-- `readRestOfWhitespaceLine`: blanks up to and including a newline, or blanks up to the end of the text -/
theorem readRest_ok {text : List UInt8} {s : St} {x : Range} {s' : St} (hG : Good text s)
    (h : readRestOfWhitespaceLine s = .ok x s') :
    ∃ w, (∀ b ∈ w, isBlankByte b = true) ∧
      ((slice text s.off s'.off = w ∧ atEOF s' = true) ∨ slice text s.off s'.off = w ++ [10]) := by
  unfold readRestOfWhitespaceLine at h
  simp only [Res.bind_eq_ok] at h
  obtain ⟨_, s1, h1, h⟩ := h
  obtain ⟨c, hc, hp, _, _⟩ := readWhile_ok h1
  obtain ⟨G1, sl1⟩ := hG.consumed hc
  have hb := flat_blank (hG.wf_consumed hc) hp
  split at h
  · rename_i hE
    injection h with _ h2
    subst h2
    exact ⟨flat c, hb, Or.inl ⟨sl1, hE⟩⟩
  · simp only [Res.bind_eq_ok] at h
    obtain ⟨_, s2, h2, h⟩ := h
    injection h with _ h3
    subst h3
    obtain ⟨t, ht, htr, _⟩ := readCharacter_ok h2
    obtain ⟨G2, sl2⟩ := G1.consumed ht
    have hwf := G1.wf_consumed ht t List.mem_cons_self
    have : t.bytes = [10] := by rw [hwf.1 (by omega), htr]; rfl
    refine ⟨flat c, hb, Or.inr ?_⟩
    rw [slice_append text hc.ext.off_le ht.ext.off_le, sl1, sl2]
    simp [this]

theorem toks_of_runes1 {c : List Tok} {a : Nat} (h : c.map (·.r) = [a]) : ∃ t, c = [t] ∧ t.r = a := by
  cases c with
  | nil => simp at h
  | cons t ts =>
    cases ts with
    | nil => simp at h; exact ⟨t, rfl, h⟩
    | cons _ _ => simp at h

theorem toks_of_runes2 {c : List Tok} {a b : Nat} (h : c.map (·.r) = [a, b]) : ∃ t u, c = [t, u] ∧ t.r = a ∧ u.r = b := by
  cases c with
  | nil => simp at h
  | cons t ts =>
    cases ts with
    | nil => simp at h
    | cons u us =>
      cases us with
      | nil => simp at h; exact ⟨t, u, rfl, h.1, h.2⟩
      | cons _ _ => simp at h

theorem Good.wsum_pos {text : List UInt8} {s s' : St} {c : List Tok} (hG : Good text s) (hc : Consumed s c s')
    (hne : c ≠ []) : 0 < wsum c := by
  cases c with
  | nil => exact absurd rfl hne
  | cons t ts =>
    have := hG.pos t (by rw [hc.1]; simp)
    simp only [wsum_cons]; omega

theorem runesOf_star : runesOf "*" = [42] := by decide
theorem runesOf_hash : runesOf "#" = [35] := by decide
theorem runesOf_slashes : runesOf "//" = [47, 47] := by decide

/-- `readComment`: a comment leader and the rest of its line -/
theorem readComment_ok {text : List UInt8} {s : St} {x : Range} {s' : St} (hG : Good text s)
    (h : readComment s = .ok x s') :
    lineOK (slice text s.off s'.off) = true ∧ (10 : UInt8) ∉ slice text s.off s'.off := by
  unfold readComment at h
  simp only [Res.bind_eq_ok] at h
  obtain ⟨⟨r, kw⟩, s1, h1, _, s2, h2, h⟩ := h
  injection h with _ h3
  subst h3
  obtain ⟨hm, c1, hc1, hr1, _⟩ := readAlternative_ok' h1
  obtain ⟨G1, sl1⟩ := hG.consumed hc1
  obtain ⟨c2, hc2, hp2, _, _⟩ := readWhile_ok h2
  obtain ⟨G2, sl2⟩ := G1.consumed hc2
  have w1 := hG.wf_consumed hc1
  have w2 := G1.wf_consumed hc2
  have n2 : (10 : UInt8) ∉ flat c2 := flat_no_nl w2 (by
    intro t ht
    have := hp2 t ht
    simp only [isNewlineOrEOF, Bool.not_eq_true', Bool.or_eq_false_iff, beq_eq_false_iff_ne] at this
    exact this.1)
  rw [slice_append text hc1.ext.off_le hc2.ext.off_le, sl1, sl2]
  -- the leader: one of three keywords, all ASCII
  have lead : (flat c1 = [42] ∨ flat c1 = [35] ∨ flat c1 = [47, 47]) := by
    simp only [List.mem_cons, List.not_mem_nil, or_false] at hm
    rcases hm with hm | hm | hm
    · subst hm
      rw [runesOf_star] at hr1
      obtain ⟨t, rfl, hr⟩ := toks_of_runes1 hr1
      have := (w1 t List.mem_cons_self).1 (by omega)
      left; simp [this, hr]
    · subst hm
      rw [runesOf_slashes] at hr1
      obtain ⟨t, u, rfl, hr, hu⟩ := toks_of_runes2 hr1
      have a := (w1 t List.mem_cons_self).1 (by omega)
      have b := (w1 u (by simp)).1 (by omega)
      right; right; simp [a, b, hr, hu]
    · subst hm
      rw [runesOf_hash] at hr1
      obtain ⟨t, rfl, hr⟩ := toks_of_runes1 hr1
      have := (w1 t List.mem_cons_self).1 (by omega)
      right; left; simp [this, hr]
  rcases lead with l | l | l <;> rw [l]
  · exact ⟨by simp [lineOK], by simpa using n2⟩
  · exact ⟨by simp [lineOK], by simpa using n2⟩
  · exact ⟨by simp [lineOK], by simpa using n2⟩

theorem parseDirective_ok {s : St} {d : Directive} {s' : St} (h : parseDirective s = .ok d s') :
    d.range = ⟨s.off, s'.off⟩ ∧ nodeWF s.off s'.off d.toNode = true := by
  unfold parseDirective at h
  simp only [Res.bind_eq_ok] at h
  obtain ⟨addons, s1, h1, body, s2, h2, h⟩ := h
  injection h with hx hy
  subst hy
  have A : s.off ≤ s1.off ∧ nodesWF s.off s1.off (optNode addons.range addons.toNode) = true := by
    split at h1
    · simp only [Res.bind_eq_ok] at h1
      obtain ⟨a, t1, g1, g2⟩ := h1
      injection g2 with ga gb
      subst ga gb
      have := parseAddons_ok g1
      exact ⟨this.2.1, nodesWF_optNode this.2.2⟩
    · injection h1 with ga gb
      subst ga gb
      exact ⟨Nat.le_refl _, by simp [optNode, Addons.zero]⟩
  have B := parseDirectiveBody_ok h2 A.1 A.2
  have o2 := (parseDirectiveBody_fwd _ _ s1 A.1).2 _ _ h2
  rw [← hx]
  refine ⟨rfl, ?_⟩
  simp only [Directive.toNode, rng, nodeWF_mk, nodesWF_cons, nodesWF_nil, and_true]
  exact ⟨by omega, B.2.2⟩

/-- the three outcomes of one round of the `switch` in `ParseFile` -/
theorem fileItem_ok {text : List UInt8} {s : St} {d : Option Directive} {s' : St} (hG : Good text s)
    (h : fileItem s = .ok d s') :
    (d = none ∧ lineOK (slice text s.off s'.off) = true ∧ (10 : UInt8) ∉ slice text s.off s'.off ∧ s.off ≤ s'.off) ∨
    (∃ dir, d = some dir ∧ dir.range = ⟨s.off, s'.off⟩ ∧ s.off < s'.off ∧ nodeWF s.off s'.off dir.toNode = true) := by
  unfold fileItem at h
  split at h
  · simp only [Res.bind_eq_ok] at h
    obtain ⟨x, s1, h1, h⟩ := h
    injection h with ha hb
    subst ha hb
    have := readComment_ok hG h1
    exact Or.inl ⟨rfl, this.1, this.2, (readComment_fwd _).2 _ _ h1⟩
  · split at h
    · simp only [Res.bind_eq_ok] at h
      obtain ⟨dir, s1, h1, h⟩ := h
      injection h with ha hb
      subst ha hb
      have := parseDirective_ok h1
      have hs := (parseDirective_prog s).of_ok h1
      obtain ⟨c, hne, hc⟩ := hs
      have hw := hG.wsum_pos hc hne
      exact Or.inr ⟨dir, rfl, this.1, by have := hc.2; omega, this.2⟩
    · injection h with ha hb
      subst ha hb
      exact Or.inl ⟨rfl, by simp [slice_self, lineOK], by simp [slice_self], Nat.le_refl _⟩

end Knut.Syntax

namespace Knut.Syntax
open Knut.Utf8 Knut.Spec.Syntax
set_option linter.unusedVariables false

theorem fileLoop_ext (path : String) (start : Nat) (acc : List Directive) (s : St) :
    Ext s (fileLoop path start acc s).st := by
  fun_induction fileLoop path start acc s with
  | case1 acc s hE => exact Ext.refl _
  | case2 acc s hE e s1 h1 => exact ext_of_err (fileItem_ext _) h1
  | case3 acc s hE d s1 h1 hE1 => exact ext_of_ok (fileItem_ext _) h1
  | case4 acc s hE d s1 h1 hE1 e s2 h2 =>
    exact (ext_of_ok (fileItem_ext _) h1).trans (ext_of_err (readRestOfWhitespaceLine_ext _) h2)
  | case5 acc s hE d s1 h1 hE1 x s2 h2 ih =>
    exact ((ext_of_ok (fileItem_ext _) h1).trans (ext_of_ok (readRestOfWhitespaceLine_ext _) h2)).trans ih

/-- what a successful run of the main loop from state `s` adds, when `pos` is the end of the last directive:
the new directives are in order after `pos`, nested in the text, and everything between them is blank or comment. -/
theorem fileLoop_ok {text : List UInt8} {path : String} {start : Nat} {acc : List Directive} {s : St} {f : File} {s' : St}
    (h : fileLoop path start acc s = .ok f s') (hG : Good text s) (pos : Nat) (hpos : pos ≤ s.off)
    (hg : gapOK (slice text pos s.off) = true) (hn : atEOF s = false → NL (slice text pos s.off)) :
    ∃ ds, f.directives = acc.reverse ++ ds ∧ f.range = ⟨start, text.length⟩ ∧
      sortedDisjoint pos (ds.map (·.range)) = true ∧
      (∀ d ∈ ds, nodeWF 0 text.length d.toNode = true) ∧
      (gapsOf text pos (ds.map (·.range))).all gapOK = true := by
  fun_induction fileLoop path start acc s generalizing pos with
  | case1 acc s hE =>
    injection h with ha hb
    subst hb
    have e := hG.eof hE
    refine ⟨[], by rw [← ha]; simp, by rw [← ha]; simp [rng, e], by simp [sortedDisjoint], by simp, ?_⟩
    simp only [List.map_nil, gapsOf, List.all_cons, List.all_nil, Bool.and_true]
    rw [← e]; exact hg
  | case2 acc s hE e s1 h1 => cases h
  | case3 acc s hE d s1 h1 hE1 =>
    injection h with ha hb
    subst hb
    have hE' : atEOF s = false := by simpa using hE
    have G1 := hG.ext (ext_of_ok (fileItem_ext _) h1)
    have e1 := G1.eof hE1
    have hnl := hn hE'
    rcases fileItem_ok hG h1 with ⟨hd, hl, h10, hle⟩ | ⟨dir, hd, hr, hlt, hw⟩
    · subst hd
      refine ⟨[], by rw [← ha]; simp [pushOpt], by rw [← ha]; simp [rng, e1], by simp [sortedDisjoint], by simp, ?_⟩
      simp only [List.map_nil, gapsOf, List.all_cons, List.all_nil, Bool.and_true]
      rw [← e1, slice_append text hpos hle]
      exact (gapOK_snoc_line hg hnl hl h10).1
    · subst hd
      refine ⟨[dir], by rw [← ha]; simp [pushOpt], by rw [← ha]; simp [rng, e1], ?_, ?_, ?_⟩
      · simp only [List.map_cons, List.map_nil, sortedDisjoint, hr, Bool.and_true, Bool.and_eq_true, decide_eq_true_eq]
        exact ⟨hpos, hlt⟩
      · intro d hd
        simp only [List.mem_singleton] at hd
        subst hd
        exact nodeWF_mono hw (Nat.zero_le _) G1.le
      · simp only [List.map_cons, List.map_nil, gapsOf, hr, List.all_cons, List.all_nil, Bool.and_true, Bool.and_eq_true]
        exact ⟨hg, by rw [e1, slice_self]; exact gapOK_nil⟩
  | case4 acc s hE d s1 h1 hE1 e s2 h2 => cases h
  | case5 acc s hE d s1 h1 hE1 x s2 h2 ih =>
    have hE' : atEOF s = false := by simpa using hE
    have G1 := hG.ext (ext_of_ok (fileItem_ext _) h1)
    have G2 := G1.ext (ext_of_ok (readRestOfWhitespaceLine_ext _) h2)
    have o2 := (readRestOfWhitespaceLine_fwd s1).2 _ _ h2
    have hnl := hn hE'
    obtain ⟨w, hw, hrest⟩ := readRest_ok G1 h2
    have ⟨wl, w10⟩ := lineOK_blank hw
    rcases fileItem_ok hG h1 with ⟨hd, hl, h10, hle⟩ | ⟨dir, hd, hr, hlt, hwf⟩
    · -- a comment or nothing, then the rest of the line: the gap grows by one line
      subst hd
      have hline : lineOK (slice text s.off s1.off ++ w) = true ∧ (10 : UInt8) ∉ slice text s.off s1.off ++ w := by
        refine ⟨?_, by simp only [List.mem_append, not_or]; exact ⟨h10, w10⟩⟩
        -- a comment stays a comment when blanks follow; an empty item followed by blanks is blank
        cases hsl : slice text s.off s1.off with
        | nil => simpa using wl
        | cons b bs =>
          rw [hsl] at hl
          simp only [lineOK, Bool.or_eq_true, List.all_eq_true] at hl ⊢
          rcases hl with hl | hl
          · left
            intro c hc
            simp only [List.cons_append, List.mem_cons, List.mem_append] at hc
            rcases hc with hc | hc | hc
            · exact hl c (by simp [hc])
            · exact hl c (by simp [hc])
            · exact hw c hc
          · right
            revert hl
            cases bs with
            | nil => simp only [List.cons_append, List.nil_append]; intro hl; split at hl <;> simp_all
            | cons b2 bs2 => simp only [List.cons_append]; intro hl; split at hl <;> simp_all
      have key := gapOK_snoc_line hg hnl hline.1 hline.2
      have hs2 : slice text pos s2.off = slice text pos s.off ++ (slice text s.off s1.off ++ slice text s1.off s2.off) := by
        rw [slice_append text hpos (Nat.le_trans hle o2), slice_append text hle o2]
      have := ih h G2 pos (by omega) (by
        rw [hs2]
        rcases hrest with ⟨hr, _⟩ | hr
        · rw [hr]; exact key.1
        · rw [hr, ← List.append_assoc, ← List.append_assoc]
          rw [List.append_assoc (slice text pos s.off)]
          exact key.2) (by
        intro hE2
        rw [hs2]
        rcases hrest with ⟨_, hr⟩ | hr
        · rw [hr] at hE2; cases hE2
        · rw [hr, ← List.append_assoc, ← List.append_assoc]
          exact NL_snoc _)
      simpa [pushOpt] using this
    · -- a directive, then the rest of its line: a new gap starts
      subst hd
      have := ih h G2 s1.off o2 (by
        rcases hrest with ⟨hr, _⟩ | hr
        · rw [hr]
          have := gapOK_snoc_line (g := []) gapOK_nil (Or.inl rfl) wl w10
          simpa using this.1
        · rw [hr]
          have := gapOK_snoc_line (g := []) gapOK_nil (Or.inl rfl) wl w10
          simpa using this.2) (by
        intro hE2
        rcases hrest with ⟨_, hr⟩ | hr
        · rw [hr] at hE2; cases hE2
        · rw [hr]; exact NL_snoc _)
      obtain ⟨ds, i1, i2, i3, i4, i5⟩ := this
      refine ⟨dir :: ds, by rw [i1]; simp [pushOpt], i2, ?_, ?_, ?_⟩
      · simp only [List.map_cons, sortedDisjoint, hr, Bool.and_eq_true, decide_eq_true_eq]
        exact ⟨⟨hpos, hlt⟩, i3⟩
      · intro d hd
        rcases List.mem_cons.mp hd with hd | hd
        · subst hd; exact nodeWF_mono hwf (Nat.zero_le _) G1.le
        · exact i4 d hd
      · simp only [List.map_cons, gapsOf, hr, List.all_cons, Bool.and_eq_true]
        exact ⟨hg, i5⟩

/-- slices between consecutive boundaries concatenate to the text -/
theorem interleave_cover (text : List UInt8) (pos : Nat) (rs : List Range)
    (hs : sortedDisjoint pos rs = true) (hb : ∀ r ∈ rs, r.stop ≤ text.length) (hp : pos ≤ text.length) :
    interleave (gapsOf text pos rs) (rs.map fun r => slice text r.start r.stop) = text.drop pos := by
  induction rs generalizing pos with
  | nil => simp [gapsOf, interleave, slice_to_end]
  | cons r rs ih =>
    simp only [sortedDisjoint, Bool.and_eq_true, decide_eq_true_eq] at hs
    have hr := hb r List.mem_cons_self
    simp only [gapsOf, List.map_cons, interleave]
    rw [ih r.stop hs.2 (fun r' hr' => hb r' (List.mem_cons_of_mem _ hr')) hr]
    rw [← slice_to_end, ← slice_to_end]
    rw [slice_append text hs.1.1 (by omega : r.start ≤ text.length), slice_append text (Nat.le_of_lt hs.1.2) hr]
    simp

theorem good_start (text : List UInt8) : Good text ⟨0, decodeAll text⟩ :=
  ⟨by simp [flat_decodeAll], Nat.zero_le _, decodeAll_wf text, decodeAll_width_pos text, decodeAll_canon text⟩

theorem start_ok {toks : List Tok} {u : Unit} {s : St} (h : start toks = .ok u s) : s = ⟨0, toks⟩ := by
  unfold start at h
  split at h
  · injection h with _ h; exact h.symm
  · split at h
    · cases h
    · injection h with _ h; exact h.symm

/-- everything C07 says about a returned tree, for the model -/
theorem parseText_ok {path : String} {text : List UInt8} {f : File} (h : parseText path text = .ok f) :
    f.range = ⟨0, text.length⟩ ∧
    sortedDisjoint 0 (f.directives.map (·.range)) = true ∧
    (∀ d ∈ f.directives, nodeWF 0 text.length d.toNode = true) ∧
    (gapsOf text 0 (f.directives.map (·.range))).all gapOK = true := by
  unfold parseText at h
  split at h
  · cases h
  · rename_i u s0 hs
    have e0 := start_ok hs
    subst e0
    split at h
    · rename_i f' s' hp
      injection h with h
      subst h
      unfold parseFile at hp
      obtain ⟨ds, i1, i2, i3, i4, i5⟩ := fileLoop_ok hp (good_start text) 0 (Nat.le_refl _)
        (by simp [slice_self, gapOK_nil]) (fun _ => Or.inl (slice_self _ _))
      simp only [List.reverse_nil, List.nil_append] at i1
      rw [i1]
      exact ⟨i2, i3, i4, i5⟩
    · cases h

theorem parseText_err {path : String} {text : List UInt8} {e : Err} (h : parseText path text = .error e) :
    errOK text.length e = true := by
  unfold parseText at h
  split at h
  · rename_i e0 s0 hs
    injection h with h
    subst h
    unfold start at hs
    split at hs
    · cases hs
    · split at hs
      · injection hs with hs _
        subst hs
        simp [errOK, frameOK, within]
      · cases hs
  · rename_i u s0 hs
    have e0 := start_ok hs
    subst e0
    split at h
    · cases h
    · rename_i e' s' hp
      injection h with h
      subst h
      have := (parseFile_fwd path ⟨0, decodeAll text⟩).1 _ _ hp
      have hx : Ext ⟨0, decodeAll text⟩ s' := ext_of_err (fileLoop_ext path 0 [] _) hp
      exact errOK_mono this.2 ((good_start text).ext hx).le

theorem locationL_pos (stop : Nat) (pos line col : Nat) (toks : List Tok) (hl : 1 ≤ line) (hc : 1 ≤ col) :
    1 ≤ (locationL stop pos line col toks).1 ∧ 1 ≤ (locationL stop pos line col toks).2 := by
  induction toks generalizing pos line col with
  | nil => exact ⟨hl, hc⟩
  | cons t rest ih =>
    unfold locationL
    split
    · exact ⟨hl, hc⟩
    · split
      · exact ih _ _ _ (by omega) (Nat.le_refl _)
      · exact ih _ _ _ hl (by omega)


mutual
theorem nodeAll_of_wf (text : List UInt8) : ∀ (n : Node) (lo hi : Nat), nodeWF lo hi n = true → hi ≤ text.length →
    nodeAll (extractOK text) n = true
  | .mk k r cs, lo, hi, h, hh => by
    rw [nodeWF_mk] at h
    simp only [nodeAll, Bool.and_eq_true]
    refine ⟨?_, nodesAll_of_wf text cs r.start r.stop h.2 (by omega)⟩
    have hr : r.start ≤ r.stop ∧ r.stop ≤ text.length := ⟨by omega, by omega⟩
    show (Range.extract text r == some (slice text r.start r.stop)) = true
    simp [Range.extract, hr, slice]
theorem nodesAll_of_wf (text : List UInt8) : ∀ (cs : List Node) (lo hi : Nat), nodesWF lo hi cs = true → hi ≤ text.length →
    nodesAll (extractOK text) cs = true
  | [], _, _, _, _ => by simp [nodesAll]
  | c :: cs, lo, hi, h, hh => by
    rw [nodesWF_cons] at h
    simp only [nodesAll, Bool.and_eq_true]
    exact ⟨nodeAll_of_wf text c lo hi h.1 hh, nodesAll_of_wf text cs lo hi h.2 hh⟩
end


end Knut.Syntax
