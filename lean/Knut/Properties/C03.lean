import Knut.Proofs.Balance
import Knut.Spec.MTM
/-!
# C03 — Valued balances are mark-to-market at the latest known price

Model: `Balance.pricesDay` (ComputePrices), `Balance.valuateDay` (Valuate) of Model/Balance.lean;
prices come from `Prices.normalize` (property C12).  Specification: `Spec.mtm` (Spec/MTM.lean), the exact
Σ quantity × latest price.

Proved for all journals, valuation commodities and days:

* `C03_flow_valued_at_booking_day` – every booking is valued at the price of its own day:
  value = quantity if the commodity is V, otherwise `Truncate₈(quantity × price_d(c))`; zero-quantity
  postings (the value adjustments) keep their value;
* `C03_missing_price_is_error` – if a booking with non-zero quantity in a commodity other than V has no
  price on its day, the valuation stage fails (no number is produced);
* `C03_adjustment_shape` / `C03_gain_account` – a day's value adjustment for position (a, c) is
  `Truncate₈((p_d − p_{d−1}) × Q_{d−1})`, booked between `a` and `Income:<path of a without its first segment>`
  and nowhere else;
* `C03_revaluation_error_if_price_vanished` – an open position whose commodity has no price yesterday or
  today makes the day fail;
* `C03_telescope` – the exact (untruncated) identity behind mark-to-market: the value after a day,
  `Q_{d−1}·p_{d−1} + (p_d − p_{d−1})·Q_{d−1} + Σ qᵢ·p_d`, equals `Q_d·p_d`;
* `C03_trunc_error` – each `Truncate₈` moves a value by less than 10⁻⁸ towards zero… stated on scaled
  integers (`scaledTrunc`), which is how the bound `steps × 10⁻⁸` of the monitor arises.

The induction over days that composes `C03_telescope` with the per-step truncation bound into
`|W − Q·p| ≤ steps · 10⁻⁸` is `C03_mtm_bound` / `C03_mtm_bound_window` in `Properties/C03Bound.lean`, proved for a
single-position valuation trace whose terms are shown to be the model's (`C03_adjustment_term`,
`C03_booked_term`).  `Properties/C03Bridge.lean` projects `Balance.run` onto one position (`C03_run_mtm_bound`),
`Properties/C03Window.lean` does so for every window (`C03_run_window`: the report shows the value change inside the
window), `Properties/C03Report.lean` carries it to the cells of the rendered table against `Spec.mtm` with the explicit
bound `Spec.stepBound` (`C03_command_cell`), `Properties/C03Command.lean` holds the remaining clauses at command level
(`C03_command_missing_price`, `C03_gain_mirrors_adjustments`, `C03_command_flow_cell_noclose_partial`).  The monitors
evaluate `Spec.mtm`, `Spec.stepBound`, `Spec.flowAt` exactly (in Lean) and compare them with the cells of the REAL
report.  The literal reading of the property (absolute mark-to-market) fails whenever a position exists before the
window start (`--from`): the report shows the value change inside the window.  That is design behaviour of knut,
recorded as known finding `window-start-after-position`, and exactly what `C03_command_cell` states.
-/
namespace Knut.C03
open Knut Knut.Dec

/-- value assigned to a posting by the valuation stage -/
theorem C03_flow_valued_at_booking_day (v : Commodity) (cur : Option Prices.NPrices) (p p' : Posting)
    (h : Balance.valuePosting v cur p = .ok p') :
    p'.account = p.account ∧ p'.quantity = p.quantity ∧ p'.commodity = p.commodity ∧
    (p.quantity = 0 → p'.value = p.value) ∧
    (p.quantity ≠ 0 → p.commodity = v → p'.value = p.quantity) ∧
    (p.quantity ≠ 0 → p.commodity ≠ v →
      ∃ np pr, cur = some np ∧ Prices.find p.commodity np = some pr ∧ p'.value = trunc 8 (p.quantity * pr)) := by
  unfold Balance.valuePosting at h
  by_cases hz : p.quantity = 0
  · simp only [hz, if_true] at h; injection h with h; subst h
    exact ⟨rfl, rfl, rfl, fun _ => rfl, fun h => absurd hz h, fun h => absurd hz h⟩
  · simp only [hz, if_false] at h
    by_cases hc : p.commodity = v
    · simp only [hc, if_true] at h; injection h with h; subst h
      exact ⟨rfl, rfl, hc.symm, fun h => absurd h hz, fun _ _ => rfl, fun _ h => absurd hc h⟩
    · simp only [hc, if_false, bind, Except.bind] at h
      unfold Balance.lookupPrice at h
      cases hcur : cur with
      | none => rw [hcur] at h; cases h
      | some np =>
        rw [hcur] at h; simp only at h
        cases hf : Prices.find p.commodity np with
        | none => rw [hf] at h; cases h
        | some pr =>
          rw [hf] at h; simp only at h
          injection h with h; subst h
          exact ⟨rfl, rfl, rfl, fun h => absurd h hz, fun _ h => absurd h hc,
            fun _ _ => ⟨np, pr, rfl, hf, rfl⟩⟩

/-- a needed, absent price makes valuation fail -/
theorem C03_missing_price_is_error (v : Commodity) (cur : Option Prices.NPrices) (p : Posting)
    (hq : p.quantity ≠ 0) (hc : p.commodity ≠ v)
    (hmiss : ∀ np, cur = some np → Prices.find p.commodity np = none) :
    ∃ e, Balance.valuePosting v cur p = .error e := by
  unfold Balance.valuePosting Balance.lookupPrice
  simp only [hq, hc, if_false, bind, Except.bind]
  cases hcur : cur with
  | none => exact ⟨_, rfl⟩
  | some np => simp only [hmiss np hcur]; exact ⟨_, rfl⟩

/-- an error in one posting fails the whole transaction list (`mapM` stops at the first error) -/
theorem mapM_error_of_mem {α β ε : Type} (f : α → Except ε β) : ∀ (l : List α) (x : α), x ∈ l → (∃ e, f x = .error e) →
    ∃ e, l.mapM f = .error e
  | [], x, hx, _ => by cases hx
  | y :: rest, x, hx, he => by
    simp only [List.mapM_cons, bind, Except.bind]
    cases hy : f y with
    | error e => exact ⟨e, rfl⟩
    | ok b =>
      simp only
      rcases List.mem_cons.mp hx with rfl | hx'
      · obtain ⟨e, he⟩ := he; rw [hy] at he; cases he
      · obtain ⟨e, hr⟩ := mapM_error_of_mem f rest x hx' he
        rw [hr]; exact ⟨e, rfl⟩

/-- … and therefore the valuation of the day fails -/
theorem C03_missing_price_fails_day (v : Commodity) (st : BalState) (d : Day) (t : Transaction) (p : Posting)
    (ht : t ∈ d.transactions) (hp : p ∈ t.postings) (hq : p.quantity ≠ 0) (hc : p.commodity ≠ v)
    (hmiss : ∀ np, st.norm = some np → Prices.find p.commodity np = none) :
    ∃ e, Balance.valuateDay v st d = .error e := by
  unfold Balance.valuateDay
  simp only [bind, Except.bind]
  cases Balance.adjustments v d.date st.vPrev st.norm st.vQty with
  | error e => exact ⟨e, rfl⟩
  | ok adj =>
    simp only
    have ht' : t ∈ d.transactions ++ adj := List.mem_append_left _ ht
    have : ∃ e, Balance.valueTx v st.norm t = .error e := by
      unfold Balance.valueTx
      obtain ⟨e, he⟩ := mapM_error_of_mem (Balance.valuePosting v st.norm) t.postings p hp
        (C03_missing_price_is_error v st.norm p hq hc hmiss)
      rw [he]; exact ⟨e, rfl⟩
    obtain ⟨e, he⟩ := mapM_error_of_mem (Balance.valueTx v st.norm) _ t ht' this
    rw [he]; exact ⟨e, rfl⟩

/-- the shape of one value adjustment -/
theorem C03_adjustment_shape (v : Commodity) (date : Int) (prev cur : Option Prices.NPrices)
    (acc res : List Transaction) (a : Account) (c : Commodity) (q : Rat)
    (h : Balance.adjustStep v date prev cur acc ((a, c), q) = .ok res) :
    res = acc ∨
    ∃ pp cp, Balance.lookupPrice prev c = .ok pp ∧ Balance.lookupPrice cur c = .ok cp ∧ cp - pp ≠ 0 ∧
      c ≠ v ∧ a.isAL = true ∧ q ≠ 0 ∧
      res = acc ++ [{ date := date, description := "Adjust value of " ++ c ++ " in account " ++ a.name,
                      postings := postingBuild (valuationAccountFor a) a c 0 (trunc 8 ((cp - pp) * q)),
                      targets := some [c] }] := by
  unfold Balance.adjustStep at h
  simp only at h
  split at h
  · injection h with h; exact Or.inl h.symm
  · rename_i hcond
    simp only [bind, Except.bind] at h
    cases hp : Balance.lookupPrice prev c with
    | error e => rw [hp] at h; cases h
    | ok pp =>
      rw [hp] at h; simp only at h
      cases hc : Balance.lookupPrice cur c with
      | error e => rw [hc] at h; cases h
      | ok cp =>
        rw [hc] at h; simp only at h
        split at h
        · injection h with h; exact Or.inl h.symm
        · rename_i hd
          injection h with h
          right
          simp only [Bool.or_eq_true, decide_eq_true_eq, Bool.not_eq_true', not_or, Bool.not_eq_false] at hcond
          exact ⟨pp, cp, rfl, rfl, hd, hcond.1.1, hcond.1.2, hcond.2, h.symm⟩

/-- **gain account**: the adjustment of account `a` is booked between `a` and `Income:<tail of a>` only -/
theorem C03_gain_account (a : Account) (c : Commodity) (g : Rat) :
    ∀ p ∈ postingBuild (valuationAccountFor a) a c 0 g,
      (p.account = a ∧ p.other = valuationAccountFor a) ∨ (p.account = valuationAccountFor a ∧ p.other = a) := by
  intro p hp
  unfold postingBuild at hp
  simp only [List.mem_cons, List.mem_singleton, List.not_mem_nil, or_false] at hp
  rcases hp with rfl | rfl <;> simp only <;> split <;> simp

theorem C03_gain_account_is_income (a : Account) : (valuationAccountFor a).segments.head? = some "Income" ∧
    (valuationAccountFor a).segments.drop 1 = a.segments.drop 1 := ⟨rfl, rfl⟩

/-- an open foreign position without a price yesterday or today fails the day -/
theorem C03_revaluation_error_if_price_vanished (v : Commodity) (date : Int) (prev cur : Option Prices.NPrices)
    (acc : List Transaction) (a : Account) (c : Commodity) (q : Rat) (hc : c ≠ v) (hal : a.isAL = true) (hq : q ≠ 0)
    (hmiss : (∃ e, Balance.lookupPrice prev c = .error e) ∨ (∃ e, Balance.lookupPrice cur c = .error e)) :
    ∃ e, Balance.adjustStep v date prev cur acc ((a, c), q) = .error e := by
  unfold Balance.adjustStep
  have : (decide (c = v) || !a.isAL || decide (q = 0)) = false := by simp [hc, hal, hq]
  simp only [this, Bool.false_eq_true, if_false, bind, Except.bind]
  rcases hmiss with ⟨e, he⟩ | ⟨e, he⟩
  · rw [he]; exact ⟨e, rfl⟩
  · cases Balance.lookupPrice prev c with
    | error e' => exact ⟨e', rfl⟩
    | ok pp => simp only; rw [he]; exact ⟨e, rfl⟩

/-- **telescoping identity** (exact arithmetic): yesterday's value plus the revaluation of yesterday's
quantity plus today's bookings at today's price is today's quantity at today's price. -/
theorem C03_telescope (Qprev pPrev pCur : Rat) (qs : List Rat) :
    Qprev * pPrev + (pCur - pPrev) * Qprev + (qs.map (· * pCur)).sum = (Qprev + qs.sum) * pCur := by
  induction qs with
  | nil => simp; grind
  | cons q rest ih =>
    simp only [List.map_cons, List.sum_cons] at ih ⊢
    grind

/-- `Truncate₈` on the scaled numerator: it moves toward zero by less than one unit of the 8th decimal -/
theorem C03_trunc_error (r : Rat) :
    let s := r.num * pow10 8
    (0 ≤ s → scaledTrunc 8 r * r.den ≤ s ∧ s < (scaledTrunc 8 r + 1) * r.den) ∧
    (s ≤ 0 → s ≤ scaledTrunc 8 r * r.den ∧ (scaledTrunc 8 r - 1) * r.den < s) := by
  intro s
  have hd : (0 : Int) < r.den := by have := r.den_pos; omega
  unfold scaledTrunc
  show (0 ≤ s → s.tdiv r.den * r.den ≤ s ∧ s < (s.tdiv r.den + 1) * r.den) ∧
    (s ≤ 0 → s ≤ s.tdiv r.den * r.den ∧ (s.tdiv r.den - 1) * r.den < s)
  have key := Int.tmod_add_tdiv_mul s r.den
  have h2 := Int.tmod_lt_of_pos s hd
  have e1 : (s.tdiv r.den + 1) * (r.den : Int) = s.tdiv r.den * r.den + r.den := by rw [Int.add_mul, Int.one_mul]
  have e2 : (s.tdiv r.den - 1) * (r.den : Int) = s.tdiv r.den * r.den - r.den := by rw [Int.sub_mul, Int.one_mul]
  rw [e1, e2]
  generalize s.tdiv r.den * (r.den : Int) = m at key
  constructor
  · intro hs
    have h3 : 0 ≤ s.tmod r.den := Int.tmod_nonneg _ hs
    constructor <;> omega
  · intro hs
    have h3 : s.tmod r.den ≤ 0 := by
      have := Int.tmod_nonneg (r.den : Int) (a := -s) (by omega)
      rw [Int.neg_tmod] at this; omega
    have h4 : -(r.den : Int) < s.tmod r.den := by
      have := Int.tmod_lt_of_pos (-s) hd
      rw [Int.neg_tmod] at this; omega
    constructor <;> omega

/-! Non-vacuity: a priced booking -/
example : Balance.valuePosting "CHF" (some [("USD", 2)]) { account := ⟨["Assets", "A"]⟩, other := ⟨["Equity", "E"]⟩, commodity := "USD", quantity := 3 }
    = .ok { account := ⟨["Assets", "A"]⟩, other := ⟨["Equity", "E"]⟩, commodity := "USD", quantity := 3, value := 6 } := by
  unfold Balance.valuePosting Balance.lookupPrice Prices.find Prices.multiply
  simp [bind, Except.bind]
  decide +kernel

end Knut.C03
