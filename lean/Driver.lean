import Knut.Driver.C11
import Knut.Driver.C15
import Knut.Driver.C07
import Knut.Driver.C08
import Knut.Driver.Dec
import Knut.Driver.C19
import Knut.Driver.C18
import Knut.Driver.C12
import Knut.Driver.C10
import Knut.Driver.C04
import Knut.Driver.Balance
import Knut.Driver.Load
import Knut.Driver.C17
import Knut.Driver.C16
import Knut.Driver.C20
import Knut.Driver.C13
import Knut.Driver.C14
import Knut.Driver.C05
import Knut.Driver.GoSem
import Knut.Driver.GoSemTree
import Knut.Driver.GoSemSyn
import Knut.Driver.GoSemBayes
import Knut.Driver.C09Cmd
import Knut.Driver.C02
import Knut.Driver.GoSemFmt
import Knut.Driver.GoSemBean
import Knut.Driver.GoSemFloat
import Knut.Driver.GoSemMapping
import Knut.Driver.GoSemTable
import Knut.Driver.GoSemParse
/-! Line-protocol driver over the executable model: one request per line (`op field*`), one answer line.
Each property contributes a handler module `Knut/Driver/<X>.lean`; add it to `handlers`. -/
open Knut Knut.Wire

def handlers : List (List String → Option String) := [
  Knut.Driver.C19.handle,
  Knut.Driver.C18.handle,
  Knut.Driver.C17.handle,
  Knut.Driver.C16.handle,
  Knut.Driver.C20.handle,
  Knut.Driver.C13.handle,
  Knut.Driver.C14.handle,
  Knut.Driver.C05.handle,
  Knut.Driver.C11.handle,
  Knut.Driver.C15.handle,
  Knut.Driver.C07.handle,
  Knut.Driver.C08.handle,
  Knut.Driver.C12.handle,
  Knut.Driver.C10.handle,
  Knut.Driver.Dec.handle,
  Knut.Driver.C04.handle,
  Knut.Driver.Balance.handle,
  Knut.Driver.Load.handle,
  Knut.Driver.GoSem.handle,
  Knut.Driver.GoSemTree.handle,
  Knut.Driver.GoSemSyn.handle,
  Knut.Driver.GoSemBayes.handle,
  Knut.Driver.C09Cmd.handle,
  Knut.Driver.C02.handle,
  Knut.Driver.GoSemFmt.handle,
  Knut.Driver.GoSemBean.handle,
  Knut.Driver.GoSemFloat.handle,
  Knut.Driver.GoSemMapping.handle,
  Knut.Driver.GoSemTable.handle,
  Knut.Driver.GoSemParse.handle
]

def handle (fields : List String) : String :=
  (handlers.findSome? (fun h => h fields)).getD "bad-op"

partial def loop (hin hout : IO.FS.Stream) : IO Unit := do
  let line ← hin.getLine
  if line.isEmpty then return ()
  let fields := (splitOn line ' ').map (fun f => String.ofList (f.toList.filter (fun c => c != '\n' && c != '\r'))) |>.filter (· ≠ "")
  hout.putStrLn (handle fields)
  hout.flush
  loop hin hout

def main : IO Unit := do
  let hin ← IO.getStdin
  let hout ← IO.getStdout
  loop hin hout
