import Knut.Properties.C01Go
import Knut.FactsAgree.TransProcessAllBalance
/-!
# C01 (the Delta clause) on the generated definitions, over a WHOLE journal — without the relational hypothesis of `C01Go`

`Properties/C01Go.lean` left `hrel` / `hlog` open: that the Go transactions reaching the query stage stand for the model's.
`FactsAgree/TransProcessAllBalance.lean` composes the per-day stage theorems over a journal: `processAllBalance` — the sequential meaning
(`Pipeline.seqRun`, justified by `C19_confluent`; that `cpr.Seq` itself is not translated stays a stated modelling step) of
`j.Build().Process(check, ComputePrices, Valuate, Filter, CloseAccounts, Query.Into)` on the translated closures.  Here:

* `runOrd_sum_zero`: the conservation argument of C01 holds for every run of the model in which the association lists that
  `Valuate.DayStart` / `CloseAccounts.DayStart` range over are re-listed before each day (`RunOrd`) — i.e. for EVERY family of map
  iteration orders, not only the model's own;
* **`C01_delta_zero_process_go`**: whenever the sequential run of the six translated stages over the Go journal succeeds, `Totals` and
  `Plus` on the report that the log of the translated `Query.Into` leaves give ZERO at every column date and commodity.  Hypotheses:
  the Go days stand for the model days (`DaysRel`: what the loader builds — `FactsAgree/TransCreate3.lean` — every `Src` arbitrary), the
  parameters stand for the configuration (`ParOK`: every admissible family of iteration orders and fuels), the journal's transactions
  are paired and the report unfiltered (as in C01), accounts reaching the query start with a type word (`QueryWf`), commodities interned
  with non-empty names, and the order families of `Totals`/`Plus` admissible (as in `C01Go`).  No hypothesis relates the PROCESSED Go
  journal to the model any more.
-/
namespace Knut.C01Go2
open Knut Knut.GoSem Knut.Balance
open Knut.Generated.Go
open Knut.FactsAgree.TransAmountsSum Knut.FactsAgree.TransReport Knut.FactsAgree.TransProcessAll
open Knut.FactsAgree.TransQuery (entryOf)

/-- the conservation of C01 for every re-listed run of the model -/
theorem runOrd_sum_zero (cfg : BalCfg) (hu : Unfiltered cfg) (κ : Option Int → Commodity → Bool) :
    ∀ (days : List Day) (st0 st : BalState), RunOrd cfg st0 days st → C01.PairedDays days → sumSel κ st0.entries = 0 →
      sumSel κ st.entries = 0 := by
  intro days st0 st h
  induction h with
  | nil st => intro _ h0; exact h0
  | @cons st st1 st2 d ds vq cq _ _ _ _ hday _ ih =>
    intro hp h0
    have h1 := sumSel_day cfg hu κ { st with vQty := vq, cQty := cq } st1 d (hp d List.mem_cons_self) hday
    exact ih (fun d' hd' => hp d' (List.mem_cons_of_mem _ hd')) (by rw [h1]; exact h0)

/-- every cell behind the Delta row is zero on the entries of every re-listed run -/
theorem runOrd_cells_zero (cfg : BalCfg) (hu : Unfiltered cfg) (days : List Day) (hp : C01.PairedDays days) (st : BalState)
    (h : RunOrd cfg {} days st) (byCom : Bool) (c : Option Commodity) (d : Int) :
    BalanceReport.cellAt st.entries byCom c d = 0 :=
  runOrd_sum_zero cfg hu (fun date com => date = some d && (if byCom then some com else none) = c) days {} st h hp rfl

/-- **every value behind the Delta row is zero, on the translated pipeline over a whole journal** -/
theorem C01_delta_zero_process_go (cur : String → Bool) (cfg : BalCfg) (P : BalPar) (q : journal.Query) (hP : ParOK cur cfg P q)
    (G0 : BalGo) (hinit : BalInv cur cfg q (fusedInit G0) {}) (gdays : List journal.Day) (days : List Day)
    (hdays : DaysRel cur gdays days) (hwf : ∀ d ∈ days, QueryWf cfg d) (out : List journal.Day)
    (hgo : processAllBalance P G0 gdays = some out)
    (hu : Unfiltered cfg) (hp : C01.PairedDays days) (part : date.Partition) (byCommodity : Bool) :
    ∃ G', runDays (fusedBalance P) (fusedInit G0) gdays = .ok (G', out) ∧
      ((∀ e ∈ G'.2.c, e.1.Commodity = Knut.FactsAgree.TransPosting.commodityGo cur e.1.Commodity.name ∧ e.1.Commodity.name ≠ "") →
        ∀ (o1 o2 o4 o5 : List String → List amounts.Key) (ord3 ord6 : List String → List String),
          Orders (sec true G'.2.c) [] (mfR byCommodity) [] (C01Go.reportOf part G'.2.c).AL o1 o2 ord3 →
          Orders (sec false G'.2.c) [] (mfR byCommodity) [] (C01Go.reportOf part G'.2.c).EIE o4 o5 ord6 →
          ∃ al eie, balance.Report.Totals (C01Go.reportOf part G'.2.c) (pureFn (mfR byCommodity)) o1 o2 ord3 o4 o5 ord6 =
              GoSem.Outcome.ok (C01Go.reportOf part G'.2.c, al, eie) ∧
            ∀ op : List amounts.Key, op.Perm (AMap.keys eie) →
              ∀ (c : Option Knut.Commodity), (∀ s, c = some s → s ≠ "") → ∀ d : Int, d ≠ 0 →
                AMap.get (amounts.Amounts.Plus al eie op) (amounts.DateCommodityKey d (comGo cur c)) 0 = 0) := by
  obtain ⟨G', st, hr, hrun, _, hlog⟩ := processAllBalance_agrees_partial cur cfg P q hP G0 hinit gdays days hdays hwf out hgo
  refine ⟨G', hr, ?_⟩
  intro hcom o1 o2 o4 o5 ord3 ord6 h1 h2
  obtain ⟨al, eie, hT, hcells⟩ := C01Go.C01_delta_cells_go cur part G'.2.c byCommodity hcom o1 o2 o4 o5 ord3 ord6 h1 h2
  refine ⟨al, eie, hT, ?_⟩
  intro op hop c hc d hd
  rw [hcells op hop c hc d hd]
  have : esOf G'.2.c = st.entries := hlog
  rw [this]
  exact runOrd_cells_zero cfg hu days hp st hrun byCommodity c d

/-! ### Non-vacuity: the empty journal — the six stages succeed on no day, the initial states are related (`BalInv_init`), the log is
empty -/
example (P : BalPar) (q : journal.Query) (gf : journal.Filter.State)
    (gc : journal.CloseAccounts.State) :
    processAllBalance P ⟨checkInit, ⟨GoZero.zero, []⟩, ⟨GoZero.zero, GoZero.zero, []⟩, gf, gc, { query := q, c := [] }⟩ [] = some [] := by
  rw [processAllBalance_eq]; rfl

end Knut.C01Go2
