package main

import (
	"bufio"
	"encoding/hex"
	"encoding/json"
	"fmt"
	"io"
	"os"
	"os/exec"
	"sort"
	"strings"
	"time"
)

// ---------------------------------------------------------------- RNG (splitmix64)

type RNG struct{ s uint64 }

func NewRNG(seed uint64, stream string, index int) *RNG {
	h := seed*0x9E3779B97F4A7C15 + 0x1234567
	for _, b := range []byte(stream) {
		h = (h ^ uint64(b)) * 0x100000001B3
	}
	h ^= uint64(index) * 0xD6E8FEB86659FD93
	r := &RNG{s: h}
	r.Next()
	r.Next()
	return r
}

func (r *RNG) Next() uint64 {
	r.s += 0x9E3779B97F4A7C15
	z := r.s
	z = (z ^ (z >> 30)) * 0xBF58476D1CE4E5B9
	z = (z ^ (z >> 27)) * 0x94D049BB133111EB
	return z ^ (z >> 31)
}

// Intn returns a value in [0, n).
func (r *RNG) Intn(n int) int {
	if n <= 0 {
		return 0
	}
	return int(r.Next() % uint64(n))
}

// Range returns a value in [lo, hi].
func (r *RNG) Range(lo, hi int) int { return lo + r.Intn(hi-lo+1) }

func (r *RNG) Bool() bool { return r.Next()&1 == 1 }

// Chance returns true with probability num/den.
func (r *RNG) Chance(num, den int) bool { return r.Intn(den) < num }

func Pick[T any](r *RNG, xs []T) T { return xs[r.Intn(len(xs))] }

// ---------------------------------------------------------------- model driver

type Driver struct {
	cmd   *exec.Cmd
	in    *bufio.Writer
	out   *bufio.Reader
	Calls int
}

func StartDriver(path string) (*Driver, error) {
	cmd := exec.Command(path)
	stdin, err := cmd.StdinPipe()
	if err != nil {
		return nil, err
	}
	stdout, err := cmd.StdoutPipe()
	if err != nil {
		return nil, err
	}
	cmd.Stderr = os.Stderr
	if err := cmd.Start(); err != nil {
		return nil, err
	}
	return &Driver{cmd: cmd, in: bufio.NewWriterSize(stdin, 1<<20), out: bufio.NewReaderSize(stdout, 1<<20)}, nil
}

// Ask sends one request line and returns the answer line.
func (d *Driver) Ask(fields ...string) string {
	d.Calls++
	line := strings.Join(fields, " ")
	if strings.ContainsAny(line, "\n\r") {
		panic("driver request contains a newline: " + line)
	}
	d.in.WriteString(line)
	d.in.WriteByte('\n')
	d.in.Flush()
	res, err := d.out.ReadString('\n')
	if err != nil {
		return "driver-error " + err.Error()
	}
	return strings.TrimRight(res, "\n")
}

// AskBatch sends many requests and reads all answers (pipelined).
func (d *Driver) AskBatch(lines []string) []string {
	res := make([]string, len(lines))
	done := make(chan struct{})
	go func() {
		for i := range lines {
			s, err := d.out.ReadString('\n')
			if err != nil {
				s = "driver-error " + err.Error()
			}
			res[i] = strings.TrimRight(s, "\n")
		}
		close(done)
	}()
	for _, l := range lines {
		d.in.WriteString(l)
		d.in.WriteByte('\n')
	}
	d.in.Flush()
	<-done
	d.Calls += len(lines)
	return res
}

func (d *Driver) Close() {
	d.in.Flush()
	if c, ok := d.cmd.Stdin.(io.Closer); ok {
		c.Close()
	}
	d.cmd.Process.Kill()
	d.cmd.Wait()
}

// Hex encodes a string as a protocol field ("-" for the empty string).
func Hex(s string) string {
	if s == "" {
		return "-"
	}
	return hex.EncodeToString([]byte(s))
}

func UnHex(s string) string {
	if s == "-" {
		return ""
	}
	b, err := hex.DecodeString(s)
	if err != nil {
		return "<bad hex " + s + ">"
	}
	return string(b)
}

// ---------------------------------------------------------------- findings and evidence

type Finding struct {
	Kind     string `json:"kind"` // "monitor" (property predicate fails on the implementation) | "disagree" (model != implementation)
	Property string `json:"property"`
	Stream   string `json:"stream"`
	Index    int    `json:"index"`
	Seed     uint64 `json:"seed"`
	What     string `json:"what"`  // failing predicate / correspondence op
	Input    any    `json:"input"` // concrete replayable input
	Impl     string `json:"impl,omitempty"`
	Model    string `json:"model,omitempty"`
	Known    string `json:"known,omitempty"` // key of a known finding this matches
}

type Known struct {
	Property string `json:"property"`
	Key      string `json:"key"`
	What     string `json:"what"`
	Status   string `json:"status"` // known | fixed
	Commit   string `json:"commit,omitempty"`
}

type Ctx struct {
	Prop        string
	Tier        string
	Seed        uint64
	KnutBin     string
	WorkDir     string
	Drv         *Driver
	Replay      bool           // replay mode: only the case (OnlyStr, OnlyIndex) runs
	OnlyIndex   int            // replay: only this index
	OnlyStr     string         // replay: only this stream
	ReplayInput map[string]any // replay: the finding's own input, for cases not reproducible from (stream, index)

	Evals        int
	Compared     int
	Monitored    int
	Classes      map[string]int
	Tags         map[string]int
	Samples      []any
	Findings     []Finding
	FindingCount map[string]int
	Notes        []string
	Extra        map[string]any
	start        time.Time
	maxFinding   int
}

func (c *Ctx) Thorough() bool { return c.Tier == "thorough" }

// N picks the case count by tier.
func (c *Ctx) N(quick, thorough int) int {
	if c.Thorough() {
		return thorough
	}
	return quick
}

// Want tells whether case (stream, index) is to be run (replay filter).
func (c *Ctx) Want(stream string, index int) bool {
	if !c.Replay {
		return true
	}
	return stream == c.OnlyStr && index == c.OnlyIndex
}

func (c *Ctx) Rng(stream string, index int) *RNG { return NewRNG(c.Seed, stream, index) }

// Class records a distinct non-trivial case class (shape/branch signature).
func (c *Ctx) Class(sig string) { c.Classes[sig]++ }
func (c *Ctx) Tag(t string)     { c.Tags[t]++ }

func (c *Ctx) Sample(s any) {
	if len(c.Samples) < 6 {
		c.Samples = append(c.Samples, s)
	}
}

func (c *Ctx) addFinding(f Finding) {
	// separate caps per kind, so that many disagreements never hide a failing predicate
	n := 0
	for _, g := range c.Findings {
		if g.Kind == f.Kind && (g.Known == "") == (f.Known == "") {
			n++
		}
	}
	c.FindingCount[f.Kind]++
	if n < c.maxFinding {
		c.Findings = append(c.Findings, f)
	}
}

// Compare records a correspondence comparison between implementation and model.
func (c *Ctx) Compare(stream string, index int, op string, input any, impl, model string) bool {
	c.Compared++
	if impl == model {
		return true
	}
	c.addFinding(Finding{Kind: "disagree", Property: c.Prop, Stream: stream, Index: index, Seed: c.Seed, What: op, Input: input, Impl: clip(impl), Model: clip(model)})
	return false
}

// Monitor records an evaluation of the property predicate on the implementation's output.
func (c *Ctx) Monitor(stream string, index int, pred string, input any, ok bool, detail string) bool {
	c.Monitored++
	if ok {
		return true
	}
	c.addFinding(Finding{Kind: "monitor", Property: c.Prop, Stream: stream, Index: index, Seed: c.Seed, What: pred, Input: input, Impl: clip(detail)})
	return false
}

// MonitorKnown is Monitor for a failure that matches a known-finding key.
func (c *Ctx) MonitorKnown(stream string, index int, pred string, input any, detail string, key string) {
	c.Monitored++
	c.addFinding(Finding{Kind: "monitor", Property: c.Prop, Stream: stream, Index: index, Seed: c.Seed, What: pred, Input: input, Impl: clip(detail), Known: key})
}

func clip(s string) string {
	if len(s) > 4000 {
		return s[:4000] + "…"
	}
	return s
}

type Result struct {
	Property    string         `json:"property"`
	Tier        string         `json:"tier"`
	Seed        uint64         `json:"seed"`
	Evaluations int            `json:"evaluations"`
	Compared    int            `json:"compared"`
	Monitored   int            `json:"monitored"`
	DriverCalls int            `json:"driver_calls"`
	Distinct    int            `json:"distinct_nontrivial"`
	Classes     map[string]int `json:"classes"`
	Tags        map[string]int `json:"tags"`
	Samples     []any          `json:"samples"`
	Findings    []Finding      `json:"findings"`
	Notes       []string       `json:"notes"`
	Extra       map[string]any `json:"extra,omitempty"`
	WallS       float64        `json:"wall_s"`
}

func (c *Ctx) Result() Result {
	cls := c.Classes
	if len(cls) > 400 {
		// keep the evidence file readable: the count is exact, the listing is truncated
		keys := make([]string, 0, len(cls))
		for k := range cls {
			keys = append(keys, k)
		}
		sort.Strings(keys)
		small := make(map[string]int)
		for _, k := range keys[:400] {
			small[k] = cls[k]
		}
		cls = small
	}
	calls := 0
	if c.Drv != nil {
		calls = c.Drv.Calls
	}
	return Result{Property: c.Prop, Tier: c.Tier, Seed: c.Seed, Evaluations: c.Evals, Compared: c.Compared, Monitored: c.Monitored,
		DriverCalls: calls, Distinct: len(c.Classes), Classes: cls, Tags: c.Tags, Samples: c.Samples, Findings: c.Findings,
		Notes: c.Notes, Extra: c.Extra, WallS: time.Since(c.start).Seconds()}
}

func writeJSON(path string, v any) error {
	b, err := json.MarshalIndent(v, "", " ")
	if err != nil {
		return err
	}
	return os.WriteFile(path, b, 0o644)
}

func fatalf(format string, args ...any) {
	fmt.Fprintf(os.Stderr, "harness: "+format+"\n", args...)
	os.Exit(2)
}

// ---------------------------------------------------------------- batched model requests

// Batch queues model requests with continuations; Flush sends them pipelined.
type Batch struct {
	drv   *Driver
	lines []string
	conts []func(string)
	Limit int
}

func (c *Ctx) NewBatch() *Batch { return &Batch{drv: c.Drv, Limit: 20000} }

func (b *Batch) Add(cont func(answer string), fields ...string) {
	b.lines = append(b.lines, strings.Join(fields, " "))
	b.conts = append(b.conts, cont)
	if len(b.lines) >= b.Limit {
		b.Flush()
	}
}

func (b *Batch) Flush() {
	if len(b.lines) == 0 {
		return
	}
	lines, conts := b.lines, b.conts
	b.lines, b.conts = nil, nil
	answers := b.drv.AskBatch(lines)
	for i, a := range answers {
		conts[i](a)
	}
}
