import Knut.Proofs.MTMFlows
import Knut.Proofs.MTMFlowCells
import Knut.Proofs.MTMEmpty
import Knut.Properties.C03
import Knut.Properties.C03Report
/-!
# C03 — the remaining clauses of the property at command level

* **missing price ⇒ no number** – `C03_run_missing_price_fails` (pipeline: a booking with non-zero quantity in a
  commodity other than `V` whose commodity has no normalised price among the declarations dated up to its day makes
  `Balance.run` fail, on whatever day list and window) and `C03_command_missing_price` (`BalanceCmd.run` then ends in
  `error` — or in the partition's panic, which precedes processing — never in `ok stdout`: nothing is printed);
* **gain account** – `C03_gain_mirrors_adjustments`: among the transactions handed to the Query stage (each posting of
  which becomes exactly one report insert of the same account, commodity and value in a plain valued report:
  `C03_inserts_are_postings`), the zero-quantity postings on `Income:<path of a>` against `a` total
  `−(value on (a, c) − Σ booked values on (a, c))`, exactly; `C03_value_is_booked_plus_adjustments` is the split used;
* **flows at booking-day prices** – `C03_flow_window_noclose` (pipeline) and `C03_command_flow_cell_noclose_partial`
  (cells): without closing, the row of an account that is neither asset/liability nor below `Income` shows, in the column
  of the period end `D`, exactly `−Spec.flowAt V days b (window start − 1) D`, the sum of its bookings inside the window
  up to `D`, each valued by `Spec.bookingValue` at the normalised prices of ITS OWN day.  The same with `--close` (the
  valued closing transfers) and for accounts below `Income` (they also carry the mirrored adjustments) is
  `C03_command_flow_cell` in `Properties/C03Flows.lean`.
-/
namespace Knut.C03
open Knut Knut.Dec Knut.MTM Knut.LedgerCommand

/-! ### a needed price that does not exist -/

/-- **pipeline level**: on a date-sorted day list, a booking with non-zero quantity in a commodity `≠ V` for which the
declarations dated up to its day yield no normalised price makes the run fail — whatever the window, with or without
closing -/
theorem C03_run_missing_price_fails (cfg : BalCfg) (v : Commodity) (hv : cfg.valuation = some v)
    (days : List Day) (hs : Sorted days) (d : Day) (hd : d ∈ days) (t : Transaction) (ht : t ∈ d.transactions)
    (p : Posting) (hp : p ∈ t.postings) (hq : p.quantity ≠ 0) (hc : p.commodity ≠ v)
    (hmiss : ∀ np, Spec.pricesAt v days d.date = some np → Prices.find p.commodity np = none) :
    ∃ e, Balance.run cfg days = .error e := by
  cases hrun : Balance.run cfg days with
  | error e => exact ⟨e, rfl⟩
  | ok stF =>
    exfalso
    obtain ⟨L1, L2, hsplit⟩ := List.append_of_mem hd
    obtain ⟨txs, hpr, _⟩ := run_pipelineRun cfg days stF hrun
    rw [hsplit] at hpr
    obtain ⟨s1, t1, t2, h1, h2, _⟩ := pipelineRun_append cfg L1 (d :: L2) {} stF txs hpr
    unfold pipelineRun at h2
    cases hq' : dayQ cfg s1 d with
    | error e => rw [hq'] at h2; cases h2
    | ok r =>
      obtain ⟨sd, td⟩ := r
      have hone : pipelineRun cfg s1 [d] = .ok (sd, td ++ []) := by
        unfold pipelineRun
        rw [hq']
        rfl
      have hpre := pipelineRun_append_ok cfg L1 [d] {} s1 sd t1 (td ++ []) h1 hone
      have hrun' : Balance.run cfg (days.filter (fun x => x.date ≤ d.date)) = .ok sd := by
        rw [hsplit, sorted_prefix_at L1 L2 d (by rw [← hsplit]; exact hs)]
        exact run_of_pipelineRun cfg _ _ _ hpre
      obtain ⟨hnorm, _⟩ := run_prices_spec cfg v hv days d.date sd hrun'
      obtain ⟨stp, r, hval, hn⟩ := dayQ_valuate cfg v s1 sd d td hv hq'
      obtain ⟨e, he⟩ := C03_missing_price_fails_day v stp d t p ht hp hq hc (by
        intro np hnp
        apply hmiss
        rw [← hnorm, ← hn]; exact hnp)
      rw [he] at hval
      cases hval

/-- **the command prints no number**: if some transaction of the journal books a non-zero quantity in a commodity other
than `V` for which no price exists on or before the day of the transaction (`Spec.pricesAt` over the journal's own
days has no entry for it), `knut balance -v V` does not succeed: it ends with the processing error, or with the panic of
`NewPartition` (zero window start) which precedes all processing.  For all flags. -/
theorem C03_command_missing_price (f : BalanceFlags) (v : Commodity) (hv : f.valuation = some v)
    (ds : List Directive) (t : Transaction) (ht : Directive.tx t ∈ ds)
    (p : Posting) (hp : p ∈ t.postings) (hq : p.quantity ≠ 0) (hc : p.commodity ≠ v)
    (hmiss : ∀ np, Spec.pricesAt v (Builder.ofList ds).build t.date = some np → Prices.find p.commodity np = none) :
    BalanceCmd.run f ds = .error "processing" ∨ ∃ s, BalanceCmd.run f ds = .panic s := by
  rw [run_eq, entries_eq]
  cases hpart : newPartition (BalanceCmd.window f (Builder.ofList ds)) f.interval f.last with
  | panic s => exact Or.inr ⟨s, rfl⟩
  | ok part =>
    left
    simp only
    obtain ⟨d, hd, hdate, htd⟩ := mem_daysOf_tx f ds part t ht
    obtain ⟨e, he⟩ := C03_run_missing_price_fails (cfgOf f part) v hv (daysOf f ds part) (daysOf_sorted f ds part)
      d hd t htd p hp hq hc (by
        intro np hnp
        apply hmiss
        rw [← pricesAt_daysOf f ds part, ← hdate]; exact hnp)
    rw [he]

/-- … in particular nothing is written to standard output -/
theorem C03_command_missing_price_no_output (f : BalanceFlags) (v : Commodity) (hv : f.valuation = some v)
    (ds : List Directive) (t : Transaction) (ht : Directive.tx t ∈ ds)
    (p : Posting) (hp : p ∈ t.postings) (hq : p.quantity ≠ 0) (hc : p.commodity ≠ v)
    (hmiss : ∀ np, Spec.pricesAt v (Builder.ofList ds).build t.date = some np → Prices.find p.commodity np = none) :
    ∀ out, BalanceCmd.run f ds ≠ .ok out := by
  intro out h
  rcases C03_command_missing_price f v hv ds t ht p hp hq hc hmiss with h1 | ⟨s, h1⟩ <;> rw [h1] at h <;> cases h

/-! ### the gain account -/

/-- in a plain valued report every posting handed to the Query stage becomes exactly one insert: same account, same
commodity, amount = the posting's value, column = `Align` of the transaction date -/
theorem C03_inserts_are_postings (cfg : BalCfg) (hp : Plain cfg) (hv : cfg.valuation.isSome = true) (t : Transaction) :
    Balance.queryTx cfg t = t.postings.map (fun p => ⟨alignIn cfg.periods t.date, p.account, p.commodity, p.value⟩) := by
  unfold Balance.queryTx
  generalize t.postings = ps
  induction ps with
  | nil => rfl
  | cons p rest ih => rw [List.filterMap_cons, queryPosting_plain cfg hp hv t p, List.map_cons, ih]

/-- the value on a position is the sum of its booked values (non-zero postings, each `Truncate₈(quantity × price of its
day)`: `C03_flow_valued_at_booking_day`) and of its value adjustments (zero-quantity postings) -/
theorem C03_value_is_booked_plus_adjustments (a : Account) (c : Commodity) (txs : List Transaction) :
    valOn a c txs = sumVal (isBookedOn a c) txs + sumVal (isAdjOn a c) txs :=
  valOn_split a c txs

/-- **the accumulated revaluation gain is booked on the income account that mirrors the account's path**: for every
valued run (any window, closing on or off) on unvalued journal postings, among the transactions handed to the Query
stage the postings on `Income:<path of a>` against `a` (zero quantity, commodity `c`) total
`−(value on (a, c) − Σ booked values on (a, c))` — exactly, no rounding. -/
theorem C03_gain_mirrors_adjustments (cfg : BalCfg) (v : Commodity) (hv : cfg.valuation = some v)
    (days : List Day) (hz : ∀ d ∈ days, ∀ t ∈ d.transactions, ∀ p ∈ t.postings, p.value = 0)
    (a : Account) (c : Commodity) (hal : a.isAL = true)
    (stF : BalState) (txs : List Transaction) (h : pipelineRun cfg {} days = .ok (stF, txs)) :
    sumVal (isGainOf a c) txs = -(valOn a c txs - sumVal (isBookedOn a c) txs) := by
  have hinv0 : CloseInv {} := by intro k hk; cases hk
  have hsh := pipelineRun_shape cfg v hv days {} stF txs hinv0 hz h
  rw [gain_mirrors a c hal txs hsh, valOn_split a c txs]
  grind

/-- the counter-postings sit on `Income:` + the account's path without its first segment, and nowhere else -/
theorem C03_gain_account_path (a : Account) (c : Commodity) (p : Posting) (h : isGainOf a c p = true) :
    p.account.segments = "Income" :: a.segments.drop 1 ∧ p.other = a ∧ p.commodity = c ∧ p.quantity = 0 := by
  unfold isGainOf at h
  simp only [Bool.and_eq_true, decide_eq_true_eq] at h
  obtain ⟨⟨⟨h1, h2⟩, h3⟩, h4⟩ := h
  exact ⟨by rw [h1]; rfl, h2, h3, h4⟩


/-! ### income, expense and equity bookings are valued at the price of their booking day -/

/-- **pipeline level, closing off**: for an account that is neither asset/liability nor below `Income` (no value
adjustment is ever booked on it), the inserts aligned to column dates `≤ D` total exactly `Spec.flowAt`: the journal's
bookings on the account dated inside the window up to `D`, each valued `Truncate₈(quantity × normalised price of the
declarations up to ITS OWN day)` (the quantity itself in `V`) -/
theorem C03_flow_window_noclose (cfg : BalCfg) (v : Commodity) (b : Account) (days : List Day) (stF : BalState) (D : Int)
    (hv : cfg.valuation = some v) (hcl : cfg.close = false) (hpl : Plain cfg)
    (hb1 : b.isAL = false) (hb2 : b.segments.head? ≠ some "Income") (hs : Sorted days)
    (hcons : ∀ d ∈ days, ∀ t ∈ d.transactions, t.date = d.date)
    (hz : ∀ d ∈ days, ∀ t ∈ d.transactions, ∀ p ∈ t.postings, p.value = 0)
    (hinc : List.Pairwise (· < ·) (cfg.periods.map (·.stop))) (hD : D ∈ cfg.periods.map (·.stop))
    (hDin : cfg.span.contains D = true)
    (h : Balance.run cfg days = .ok stF) :
    ∃ fl, Spec.flowAt v days b (cfg.span.start - 1) D = some fl ∧ accCum b stF.entries D = fl :=
  run_flow_window cfg v b days stF D hv hcl hpl hb1 hb2 hs hcons hz hinc hD hDin h

open Knut.Table (Cell) in
/-- **the cells of an expense/equity row, `--close=false`**: in a cumulative valued report with per-account rows the
row of an account `b` that is neither asset/liability nor below `Income` shows, in the column of the period end `D`,
exactly `−Spec.flowAt V days b (window start − 1) D` (the income/expense/equity section flips the sign): every booking
valued at the price of its own day, no revaluation afterwards.  Partial in two directions, both stated: closing must be
off, and the account must not be below `Income`.  The full statement (closing on or off, every account other than
`Equity:Equity`, accounts below `Income` with the mirrored adjustments) is `C03_command_flow_cell`
(`Properties/C03Flows.lean`), which supersedes this one. -/
theorem C03_command_flow_cell_noclose_partial (f : BalanceFlags) (v : Commodity) (hf : PlainFlags f v)
    (hcl : f.close = false) (ds : List Directive)
    (hz : ∀ t, Directive.tx t ∈ ds → ∀ p ∈ t.postings, p.value = 0)
    (es : List Entry) (part : Partition) (h : BalanceCmd.entries f ds = .ok (es, part))
    (b : Account) (hb1 : b.isAL = false) (hb2 : b.segments.head? ≠ some "Income") (hb3 : b.segments ≠ [])
    (hmem : ∃ e ∈ es, e.account = b) :
    ∃ pre post cells,
      (BalanceReport.table (BalanceCmd.renderCfg f part) es).rows =
        pre ++ [Cell.text (b.segments.getLast?.getD "").toList .left ((2 * (b.segments.length - 1) : Nat) : Int) :: cells] ++ post ∧
      cells.length = part.endDates.length ∧
      ∀ (k : Nat) (hk : k < part.endDates.length) (hk' : k < cells.length),
        ∃ fl, Spec.flowAt v (Builder.ofList ds).build b (part.span.start - 1) part.endDates[k] = some fl ∧
          cellVal cells[k] = -fl := by
  obtain ⟨hpart, st, hrun, rfl⟩ := entries_ok h
  obtain ⟨e, he, rfl⟩ := hmem
  have hcv : (cfgOf f part).valuation = some v := hf.valuation
  have hccl : (cfgOf f part).close = false := hcl
  have hpl := plain_cfgOf hf part
  have hne := window_nonempty_noclose (cfgOf f part) hccl _ st hrun (by intro h0; rw [h0] at he; cases he)
  have hspan := Performance.newPartition_span hpart
  obtain ⟨hinc, hin⟩ := Performance.endDates_increasing hpart
  have hne' : (BalanceCmd.window f (Builder.ofList ds)).start ≤ (BalanceCmd.window f (Builder.ofList ds)).stop := by
    rw [← hspan]; exact hne
  generalize hrc : BalanceCmd.renderCfg f part = rc
  have hrv : rc.valuation.isSome = true := by rw [← hrc]; unfold BalanceCmd.renderCfg; rw [hf.valuation]; rfl
  have hrs : ∀ s, rc.showCommodities s = false := by
    intro s; rw [← hrc]; unfold BalanceCmd.renderCfg; rw [hf.show_]; rfl
  have hrd : rc.diff = false := by rw [← hrc]; exact hf.diff
  have hre : rc.endDates = part.endDates := by rw [← hrc]; rfl
  have hdc : (rc.valuation.isNone || rc.hasShowCommodities) = false := by
    rw [← hrc]; unfold BalanceCmd.renderCfg; rw [hf.valuation, hf.show_]; rfl
  obtain ⟨pre, post, hrows⟩ := table_has_row_eie rc st.entries e he hb1 hb3
  rw [hdc] at hrows
  obtain ⟨cells, hnode, hlen, hcell⟩ := nodeRows_valued rc hrv hrs hrd (st.entries.filter (fun e => !e.account.isAL)) true
    e.account.segments (2 * (e.account.segments.length - 1))
  rw [hnode] at hrows
  refine ⟨pre, post, cells, hrows, by rw [hlen, hre], ?_⟩
  intro k hk hk'
  have hDmem : part.endDates[k] ∈ part.endDates := List.getElem_mem hk
  have hDin : (cfgOf f part).span.contains part.endDates[k] = true := by
    have := hin hne' _ hDmem
    show part.span.contains _ = true
    rw [hspan]; exact this
  obtain ⟨fl, h1, h2⟩ := C03_flow_window_noclose (cfgOf f part) v e.account (daysOf f ds part) st part.endDates[k]
    hcv hccl hpl hb1 hb2 (daysOf_sorted f ds part) (daysOf_consistent f ds part) (daysOf_zero f ds part hz) hinc hDmem hDin hrun
  rw [flowAt_daysOf] at h1
  refine ⟨fl, h1, ?_⟩
  have hcv' := hcell k hk'
  simp only [if_true] at hcv'
  have hvs : (cfgOf f part).valuation.isSome = true := by rw [hcv]; rfl
  have hdates : ∀ x ∈ st.entries.filter (fun e => !e.account.isAL), x.account = e.account →
      ∀ D', x.date = some D' → D' ∈ rc.endDates := by
    intro x hx _ D' hd
    obtain ⟨txs, _, hes⟩ := run_pipelineRun (cfgOf f part) _ st hrun
    have hx' := (List.mem_filter.mp hx).1
    rw [hes] at hx'
    obtain ⟨t, _, p, _, rfl⟩ := mem_entries_plain (cfgOf f part) hpl hvs txs x hx'
    rw [hre]
    exact alignIn_mem part.periods t.date D' hd
  have hk2 : k < rc.endDates.length := by rw [hre]; exact hk
  have hcum := cum_eq_accCum e.account (st.entries.filter (fun e => !e.account.isAL)) rc.endDates
    (by rw [hre]; exact hinc) hdates k hk2
  rw [hcv', hcum, accCum_eie e.account hb1]
  have : rc.endDates[k] = part.endDates[k] := by simp only [hre]
  rw [this, h2]

/-! ### Non-vacuity -/

/-- the journal of `C03Report` without the price declaration of day 2: USD is bought on a day on or before which no USD
price exists -/
def exBad : List Directive :=
  [.opening ⟨1, exA⟩, .opening ⟨1, exE⟩,
   .tx (Transaction.ofBookings 1 "cash" none [⟨exE, exA, 100, "CHF"⟩]),
   .tx (Transaction.ofBookings 2 "buy" none [⟨exE, exA, 7/2, "USD"⟩]),
   .price ⟨3, "USD", 1333333333/1000000000, "CHF"⟩]

example : Spec.pricesAt "CHF" (Builder.ofList exBad).build 2 = none := by decide +kernel

/-- … the command fails (although a price is declared the day after) -/
example : BalanceCmd.run { valuation := some "CHF", to := 4 } exBad = .error "processing" := by decide +kernel

/-- the gain account on the journal of `C03Report`, window `[3, 4]`: the adjustment of day 3 (+2.91666665 on
`Assets:A`) is mirrored by −2.91666665 on `Income:A`; value on the position 1.58333332 = booked −1.33333333 + adjustment -/
example : (match pipelineRun exCfgW {} exDays with
    | .ok (_, txs) => decide (sumVal (isGainOf exA "USD") txs = -(291666665/100000000) ∧
        valOn exA "USD" txs = 158333332/100000000 ∧ sumVal (isBookedOn exA "USD") txs = -(133333333/100000000) ∧
        sumVal (isAdjOn exA "USD") txs = 291666665/100000000)
    | .error _ => false) = true := by decide +kernel

example : (valuationAccountFor exA).name = "Income:A" := by decide +kernel

/-- an expense of 1 USD booked on day 2 at 0.5 CHF stays at 0.5 CHF in the column of day 3 although USD is priced
1.33333333 on day 3 (`--close=false`; the section shows it with flipped sign) -/
def exX : Account := ⟨["Expenses", "X"]⟩
def exDirsX : List Directive :=
  [.opening ⟨1, exA⟩, .opening ⟨1, exE⟩, .opening ⟨1, exX⟩,
   .tx (Transaction.ofBookings 1 "cash" none [⟨exE, exA, 100, "CHF"⟩]),
   .price ⟨2, "USD", 1/2, "CHF"⟩,
   .tx (Transaction.ofBookings 2 "buy" none [⟨exE, exA, 1, "USD"⟩]),
   .tx (Transaction.ofBookings 2 "fee" none [⟨exA, exX, 1, "USD"⟩]),
   .price ⟨3, "USD", 1333333333/1000000000, "CHF"⟩]
def exFlagsX : BalanceFlags := { valuation := some "CHF", to := 4, close := false }

example : PlainFlags exFlagsX "CHF" ∧ exFlagsX.close = false ∧ exX.isAL = false ∧ exX.segments.head? ≠ some "Income" :=
  ⟨⟨rfl, rfl, rfl, rfl, fun _ => rfl, fun _ => rfl, fun _ => rfl⟩, rfl, by decide, by decide⟩

theorem exDirsX_zero : ∀ t, Directive.tx t ∈ exDirsX → ∀ p ∈ t.postings, p.value = 0 := by
  intro t ht
  simp only [exDirsX, List.mem_cons, List.not_mem_nil, or_false, reduceCtorEq, false_or, Directive.tx.injEq] at ht
  rcases ht with rfl | rfl | rfl <;> exact ofBookings_zero _ _ _ _

example : Spec.flowAt "CHF" (Builder.ofList exDirsX).build exX 0 3 = some (1/2) := by decide +kernel

/-- the command produces the report (one column, period end day 3, window start day 1, an insert on `Expenses:X`), so
`C03_command_flow_cell_noclose_partial` applies: the row of `X` exists and its cell shows −0.5.  (The table itself is not
evaluated here: the kernel cannot unfold `List.mergeSort` on the two top-level accounts of the second section.) -/
example : ∃ es part, BalanceCmd.entries exFlagsX exDirsX = .ok (es, part) ∧ part.endDates = [3] ∧ part.span.start = 1 ∧
    ∃ e ∈ es, e.account = exX := by
  have h : (match BalanceCmd.entries exFlagsX exDirsX with
      | .ok (es, part) => decide (part.endDates = [3] ∧ part.span.start = 1 ∧ ∃ e ∈ es, e.account = exX)
      | .error _ => false) = true := by decide +kernel
  split at h
  · rename_i es part he
    simp only [decide_eq_true_eq] at h
    exact ⟨es, part, he, h⟩
  · cases h

open Knut.Table (Cell) in
example (es : List Entry) (part : Partition) (h : BalanceCmd.entries exFlagsX exDirsX = .ok (es, part))
    (h1 : part.endDates = [3]) (h2 : part.span.start = 1) (h3 : ∃ e ∈ es, e.account = exX) :
    ∃ pre post cells,
      (BalanceReport.table (BalanceCmd.renderCfg exFlagsX part) es).rows =
        pre ++ [Cell.text "X".toList .left 2 :: cells] ++ post ∧
      ∃ (hk : 0 < cells.length), cellVal cells[0] = -(1/2) := by
  obtain ⟨pre, post, cells, r1, r2, r3⟩ := C03_command_flow_cell_noclose_partial exFlagsX "CHF"
    ⟨rfl, rfl, rfl, rfl, fun _ => rfl, fun _ => rfl, fun _ => rfl⟩ rfl exDirsX exDirsX_zero es part h exX
    (by decide) (by decide) (by decide) h3
  refine ⟨pre, post, cells, r1, ?_⟩
  have hlen : cells.length = 1 := by rw [r2, h1]; rfl
  have hk : 0 < part.endDates.length := by rw [h1]; decide
  obtain ⟨fl, f1, f2⟩ := r3 0 hk (by omega)
  have e0 : part.endDates[0] = 3 := by simp only [h1, List.getElem_cons_zero]
  rw [e0, h2] at f1
  have : Spec.flowAt "CHF" (Builder.ofList exDirsX).build exX (1 - 1) 3 = some (1/2) := by decide +kernel
  rw [this] at f1
  injection f1 with f1
  exact ⟨by omega, by rw [f2, ← f1]⟩

end Knut.C03
