import Knut.Proofs.Beancount
import Knut.Proofs.Check
/-! Lemmas for C16 (open-before-use / not-after-close): what an accepting run of the checker says about the
set of open accounts, and why a position `Valuate` still holds belongs to an open account. -/
namespace Knut.Beancount
open Knut Knut.BeancountSpec Knut.JournalPrinter

/-! ### generic helpers -/

theorem foldlM_inv {α σ ε : Type} (f : σ → α → Except ε σ) (P : σ → Prop) (xs : List α)
    (hstep : ∀ s s' x, x ∈ xs → P s → f s x = .ok s' → P s') :
    ∀ (s s' : σ), P s → xs.foldlM f s = .ok s' → P s' := by
  induction xs with
  | nil => intro s s' hp h; simp only [List.foldlM_nil, pure, Except.pure] at h; injection h with h; subst h; exact hp
  | cons x rest ih =>
    intro s s' hp h
    simp only [List.foldlM_cons, bind, Except.bind] at h
    cases hx : f s x with
    | error e => rw [hx] at h; cases h
    | ok s1 =>
      rw [hx] at h; simp only at h
      exact ih (fun a b y hy => hstep a b y (List.mem_cons_of_mem _ hy)) s1 s'
        (hstep s s1 x List.mem_cons_self hp hx) h

/-! ### the accounts through one day of the checker -/

theorem openAcc_ok {st st' : CheckState} {o : Open} (h : Check.openAcc st o = .ok st') :
    st'.accounts = o.account :: st.accounts ∧ st'.quantities = st.quantities := by
  unfold Check.openAcc at h
  split at h
  · cases h
  · injection h with h; subst h; exact ⟨rfl, rfl⟩

/-- contribution of a posting to the recorded quantity of position `k` -/
def contrib (p : Posting) (k : Position) : Rat :=
  if p.account.isAL = true ∧ (p.account, p.commodity) = k then p.quantity else 0

theorem posting_ok {st st' : CheckState} {t : Transaction} {p : Posting} (h : Check.posting st t p = .ok st') :
    st'.accounts = st.accounts ∧ p.account ∈ st.accounts ∧
    ∀ k, st'.quantities.get k 0 = st.quantities.get k 0 + contrib p k := by
  unfold Check.posting at h
  split at h
  · cases h
  · rename_i hc
    have hmem : p.account ∈ st.accounts := by simpa using hc
    split at h
    · rename_i hal
      injection h with h; subst h
      refine ⟨rfl, hmem, ?_⟩
      intro k
      simp only [AMap.get_set, contrib, hal, true_and]
      split
      · rename_i hk; subst hk; rfl
      · rw [Rat.add_zero]
    · rename_i hal
      injection h with h; subst h
      refine ⟨rfl, hmem, ?_⟩
      intro k
      simp [contrib, hal, Rat.add_zero]

theorem balance_ok {st st' : CheckState} {a : Assertion} {b : Balance} (h : Check.balance st a b = .ok st') : st' = st := by
  unfold Check.balance at h
  split at h
  · cases h
  · split at h
    · cases h
    · injection h with h; exact h.symm

theorem close_ok {st st' : CheckState} {c : Close} (h : Check.close st c = .ok st') :
    st'.accounts = st.accounts.filter (· ≠ c.account) ∧
    (∀ com, st.quantities.get (c.account, com) 0 = 0) ∧
    (∀ k, st'.quantities.get k 0 = st.quantities.get k 0) := by
  unfold Check.close at h
  split at h
  · cases h
  · rename_i hany
    split at h
    · cases h
    · injection h with h; subst h
      have hzero : ∀ com, st.quantities.get (c.account, com) 0 = 0 := by
        intro com
        unfold AMap.get
        cases hf : AMap.find? st.quantities (c.account, com) with
        | none => rfl
        | some q =>
          simp only [Option.getD_some]
          have hm := AMap.mem_of_find? hf
          have : ¬ (st.quantities.any (fun e => e.1.1 = c.account && e.2 ≠ 0) = true) := hany
          rw [List.any_eq_true] at this
          by_cases hq : q = 0
          · exact hq
          · exact absurd ⟨((c.account, com), q), hm, by simp [hq]⟩ this
      refine ⟨rfl, hzero, ?_⟩
      intro k
      simp only
      unfold AMap.get
      have := AMap.find?_filter_key st.quantities (fun key => decide (key.1 ≠ c.account)) k
      have hfe : (st.quantities.filter (fun e => decide (e.1.1 ≠ c.account))) =
          (st.quantities.filter (fun e => (fun key : Position => decide (key.1 ≠ c.account)) e.1)) := rfl
      rw [hfe, this]
      by_cases hk : k.1 = c.account
      · have h0 := hzero k.2
        unfold AMap.get at h0
        have hk2 : k = (c.account, k.2) := by rw [← hk]
        rw [← hk2] at h0
        simp [hk, h0]
      · simp [hk]

/-- sum of the contributions of a list of postings -/
def contribSum (ps : List Posting) (k : Position) : Rat := (ps.map (fun p => contrib p k)).sum

theorem contribSum_append (a b : List Posting) (k : Position) : contribSum (a ++ b) k = contribSum a k + contribSum b k := by
  simp [contribSum, List.sum_append]

/-- the postings of one transaction through the checker -/
theorem postings_fold {t : Transaction} : ∀ (ps : List Posting) (st st' : CheckState),
    ps.foldlM (fun st p => Check.posting st t p) st = .ok st' →
    st'.accounts = st.accounts ∧ (∀ p ∈ ps, p.account ∈ st.accounts) ∧
    ∀ k, st'.quantities.get k 0 = st.quantities.get k 0 + contribSum ps k := by
  intro ps
  induction ps with
  | nil =>
    intro st st' h
    simp only [List.foldlM_nil, pure, Except.pure] at h; injection h with h; subst h
    exact ⟨rfl, (by intro p hp; cases hp), (by intro k; simp [contribSum, Rat.add_zero])⟩
  | cons p rest ih =>
    intro st st' h
    simp only [List.foldlM_cons, bind, Except.bind] at h
    cases hp : Check.posting st t p with
    | error e => rw [hp] at h; cases h
    | ok s1 =>
      rw [hp] at h; simp only at h
      obtain ⟨ha, hm, hq⟩ := posting_ok hp
      obtain ⟨ha2, hm2, hq2⟩ := ih s1 st' h
      refine ⟨ha2.trans ha, ?_, ?_⟩
      · intro q hq'
        rcases List.mem_cons.mp hq' with rfl | hq'
        · exact hm
        · rw [← ha]; exact hm2 q hq'
      · intro k
        rw [hq2 k, hq k]
        simp only [contribSum, List.map_cons, List.sum_cons]
        rw [Rat.add_assoc]

theorem txs_fold : ∀ (ts : List Transaction) (st st' : CheckState),
    ts.foldlM (fun st t => t.postings.foldlM (fun st p => Check.posting st t p) st) st = .ok st' →
    st'.accounts = st.accounts ∧ (∀ t ∈ ts, ∀ p ∈ t.postings, p.account ∈ st.accounts) ∧
    ∀ k, st'.quantities.get k 0 = st.quantities.get k 0 + contribSum (ts.flatMap (·.postings)) k := by
  intro ts
  induction ts with
  | nil =>
    intro st st' h
    simp only [List.foldlM_nil, pure, Except.pure] at h; injection h with h; subst h
    exact ⟨rfl, (by intro t ht; cases ht), (by intro k; simp [contribSum, Rat.add_zero])⟩
  | cons t rest ih =>
    intro st st' h
    simp only [List.foldlM_cons, bind, Except.bind] at h
    cases hp : t.postings.foldlM (fun st p => Check.posting st t p) st with
    | error e => rw [hp] at h; cases h
    | ok s1 =>
      rw [hp] at h; simp only at h
      obtain ⟨ha, hm, hq⟩ := postings_fold _ _ _ hp
      obtain ⟨ha2, hm2, hq2⟩ := ih s1 st' h
      refine ⟨ha2.trans ha, ?_, ?_⟩
      · intro t' ht' p hp'
        rcases List.mem_cons.mp ht' with rfl | ht'
        · exact hm p hp'
        · rw [← ha]; exact hm2 t' ht' p hp'
      · intro k
        rw [hq2 k, hq k, List.flatMap_cons, contribSum_append, Rat.add_assoc]

theorem opens_fold : ∀ (os : List Open) (st st' : CheckState), os.foldlM Check.openAcc st = .ok st' →
    (∀ a, a ∈ st'.accounts ↔ a ∈ st.accounts ∨ ∃ o ∈ os, o.account = a) ∧ st'.quantities = st.quantities := by
  intro os
  induction os with
  | nil =>
    intro st st' h
    simp only [List.foldlM_nil, pure, Except.pure] at h; injection h with h; subst h
    exact ⟨(by intro a; simp), rfl⟩
  | cons o rest ih =>
    intro st st' h
    simp only [List.foldlM_cons, bind, Except.bind] at h
    cases ho : Check.openAcc st o with
    | error e => rw [ho] at h; cases h
    | ok s1 =>
      rw [ho] at h; simp only at h
      obtain ⟨ha, hq⟩ := openAcc_ok ho
      obtain ⟨ha2, hq2⟩ := ih s1 st' h
      refine ⟨?_, hq2.trans hq⟩
      intro a
      rw [ha2 a, ha]
      simp only [List.mem_cons, exists_eq_or_imp]
      constructor
      · rintro ((h1 | h1) | h1)
        · exact Or.inr (Or.inl h1.symm)
        · exact Or.inl h1
        · exact Or.inr (Or.inr h1)
      · rintro (h1 | h1 | h1)
        · exact Or.inl (Or.inr h1)
        · exact Or.inl (Or.inl h1.symm)
        · exact Or.inr h1

theorem assertions_fold : ∀ (as : List Assertion) (st st' : CheckState),
    as.foldlM (fun st a => a.balances.foldlM (fun st b => Check.balance st a b) st) st = .ok st' → st' = st := by
  intro as st st' h
  refine foldlM_inv _ (fun s => s = st) as ?_ st st' rfl h
  intro s s' a _ hs hf
  subst hs
  exact foldlM_inv _ (fun x => x = s) a.balances (by intro x x' b _ hx hb; subst hx; exact balance_ok hb) s s' rfl hf

theorem closes_fold : ∀ (cs : List Close) (st st' : CheckState), cs.foldlM Check.close st = .ok st' →
    (∀ a, a ∈ st'.accounts ↔ a ∈ st.accounts ∧ ∀ c ∈ cs, c.account ≠ a) ∧
    (∀ k, st'.quantities.get k 0 = st.quantities.get k 0) ∧
    (∀ c ∈ cs, ∀ com, st.quantities.get (c.account, com) 0 = 0) := by
  intro cs
  induction cs with
  | nil =>
    intro st st' h
    simp only [List.foldlM_nil, pure, Except.pure] at h; injection h with h; subst h
    exact ⟨(by intro a; simp), fun _ => rfl, (by intro c hc; cases hc)⟩
  | cons c rest ih =>
    intro st st' h
    simp only [List.foldlM_cons, bind, Except.bind] at h
    cases hc : Check.close st c with
    | error e => rw [hc] at h; cases h
    | ok s1 =>
      rw [hc] at h; simp only at h
      obtain ⟨ha, hz, hq⟩ := close_ok hc
      obtain ⟨ha2, hq2, hz2⟩ := ih s1 st' h
      refine ⟨?_, fun k => (hq2 k).trans (hq k), ?_⟩
      · intro a
        rw [ha2 a, ha]
        simp only [List.mem_filter, List.mem_cons, forall_eq_or_imp, decide_eq_true_eq]
        constructor
        · rintro ⟨⟨h1, h2⟩, h3⟩; exact ⟨h1, fun e => h2 e.symm, h3⟩
        · rintro ⟨h1, h2, h3⟩; exact ⟨⟨h1, fun e => h2 e.symm⟩, h3⟩
      · intro c' hc' com
        rcases List.mem_cons.mp hc' with rfl | hc'
        · exact hz com
        · rw [← hq]; exact hz2 c' hc' com

/-- **one accepted day of the checker**: the accounts open while the day's transactions are booked (`acc1`) are the
previously open ones and the ones opened today; every posting hits one of them; afterwards the accounts closed
today are gone, and their positions were zero. Quantities change by the day's asset/liability postings. -/
theorem checkDay_ok {st st' : CheckState} {d : Day} (h : Check.day st d = .ok st') :
    (∀ t ∈ d.transactions, ∀ p ∈ t.postings, p.account ∈ st.accounts ∨ ∃ o ∈ d.openings, o.account = p.account) ∧
    (∀ a, a ∈ st'.accounts ↔ (a ∈ st.accounts ∨ ∃ o ∈ d.openings, o.account = a) ∧ ∀ c ∈ d.closings, c.account ≠ a) ∧
    (∀ k, st'.quantities.get k 0 = st.quantities.get k 0 + contribSum (d.transactions.flatMap (·.postings)) k) ∧
    (∀ c ∈ d.closings, ∀ com, st.quantities.get (c.account, com) 0 + contribSum (d.transactions.flatMap (·.postings)) (c.account, com) = 0) := by
  unfold Check.day at h
  simp only [bind, Except.bind] at h
  cases h1 : d.openings.foldlM Check.openAcc st with
  | error e => rw [h1] at h; cases h
  | ok s1 =>
    rw [h1] at h; simp only at h
    cases h2 : d.transactions.foldlM (fun st t => t.postings.foldlM (fun st p => Check.posting st t p) st) s1 with
    | error e => rw [h2] at h; cases h
    | ok s2 =>
      rw [h2] at h; simp only at h
      cases h3 : d.assertions.foldlM (fun st a => a.balances.foldlM (fun st b => Check.balance st a b) st) s2 with
      | error e => rw [h3] at h; cases h
      | ok s3 =>
        rw [h3] at h; simp only at h
        obtain ⟨o1, o2⟩ := opens_fold _ _ _ h1
        obtain ⟨t1, t2, t3⟩ := txs_fold _ _ _ h2
        have e3 := assertions_fold _ _ _ h3
        subst e3
        obtain ⟨c1, c2, c3⟩ := closes_fold _ _ _ h
        refine ⟨?_, ?_, ?_, ?_⟩
        · intro t ht p hp
          exact (o1 p.account).mp (t2 t ht p hp)
        · intro a
          rw [c1 a, t1, o1 a]
        · intro k
          rw [c2 k, t3 k, o2]
        · intro c hc com
          have := c3 c hc com
          rw [t3, o2] at this
          exact this

/-! ### frames: which stage touches which part of the state -/

theorem pricesDay_frame {v : Commodity} {st s1 : BalState} {d : Day} (h : Balance.pricesDay v st d = .ok s1) :
    s1.chk = st.chk ∧ s1.vQty = st.vQty := by
  unfold Balance.pricesDay at h
  simp only [bind, Except.bind] at h
  split at h
  · cases h
  · injection h with h; subst h; exact ⟨rfl, rfl⟩

theorem checkStage_frame {s1 s2 : BalState} {d : Day} (h : Balance.checkStage s1 d = .ok s2) :
    Check.day s1.chk d = .ok s2.chk ∧ s2.vQty = s1.vQty := by
  unfold Balance.checkStage at h
  split at h
  · rename_i c hc
    injection h with h; subst h; exact ⟨hc, rfl⟩
  · cases h

/-- `processDay` in terms of the checker state and `Valuate`'s quantities -/
theorem processDay_parts2 {v : Commodity} {st st' : BalState} {d : Day} {pd : ProcDay}
    (h : processDay v st d = .ok (st', pd)) :
    ∃ (adj : List Transaction) (cur : Option Prices.NPrices),
      Check.day st.chk { d with transactions := sortTxs d.transactions } = .ok st'.chk ∧
      (∀ t ∈ adj, ∃ e ∈ st.vQty, IsAdjOf d.date e t) ∧
      (sortTxs d.transactions ++ adj).mapM (Balance.valueTx v cur) = .ok pd.transactions ∧
      st'.vQty = Balance.addQty st.vQty (sortTxs d.transactions ++ adj) := by
  obtain ⟨s1, s2, adj, hp, hc, ha, hm, hst, _, _, _⟩ := processDay_parts h
  obtain ⟨p1, p2⟩ := pricesDay_frame hp
  obtain ⟨c1, c2⟩ := checkStage_frame hc
  refine ⟨adj, s2.norm, ?_, ?_, hm, ?_⟩
  · rw [hst]; simp only; rw [← p1]; exact c1
  · have := adjustments_shape v d.date _ _ _ adj ha
    rw [c2, p2] at this; exact this
  · rw [hst]; simp only; rw [c2, p2]

/-! ### `Valuate`'s quantities -/

theorem contribSum_zero_of_account {ps : List Posting} {k : Position} (h : ∀ p ∈ ps, p.account ≠ k.1) : contribSum ps k = 0 := by
  induction ps with
  | nil => rfl
  | cons p rest ih =>
    simp only [contribSum, List.map_cons, List.sum_cons]
    have : contrib p k = 0 := by
      unfold contrib
      split
      · rename_i hc; exact absurd (congrArg Prod.fst hc.2) (h p List.mem_cons_self)
      · rfl
    rw [this, Rat.zero_add]
    exact ih (fun q hq => h q (List.mem_cons_of_mem _ hq))

theorem contribSum_zero_of_quantity {ps : List Posting} {k : Position} (h : ∀ p ∈ ps, p.quantity = 0) : contribSum ps k = 0 := by
  induction ps with
  | nil => rfl
  | cons p rest ih =>
    simp only [contribSum, List.map_cons, List.sum_cons]
    have : contrib p k = 0 := by
      unfold contrib
      split
      · exact h p List.mem_cons_self
      · rfl
    rw [this, Rat.zero_add]
    exact ih (fun q hq => h q (List.mem_cons_of_mem _ hq))

theorem addQty_postings (ps : List Posting) : ∀ (q : AMap Position Rat), AMap.NodupKeys q →
    AMap.NodupKeys (ps.foldl (fun q p =>
      if p.quantity = 0 then q
      else if p.account.isAL then q.set (p.account, p.commodity) (q.get (p.account, p.commodity) 0 + p.quantity)
      else q) q) ∧
    ∀ k, (ps.foldl (fun q p =>
      if p.quantity = 0 then q
      else if p.account.isAL then q.set (p.account, p.commodity) (q.get (p.account, p.commodity) 0 + p.quantity)
      else q) q).get k 0 = q.get k 0 + contribSum ps k := by
  induction ps with
  | nil => intro q hn; exact ⟨hn, by intro k; simp [contribSum, Rat.add_zero]⟩
  | cons p rest ih =>
    intro q hn
    simp only [List.foldl_cons]
    by_cases hz : p.quantity = 0
    · simp only [hz, if_true]
      obtain ⟨i1, i2⟩ := ih q hn
      refine ⟨i1, ?_⟩
      intro k
      rw [i2 k]
      simp only [contribSum, List.map_cons, List.sum_cons]
      have : contrib p k = 0 := by unfold contrib; split <;> simp [hz]
      rw [this, Rat.zero_add]
    · simp only [hz, if_false]
      by_cases hal : p.account.isAL = true
      · simp only [hal, if_true]
        obtain ⟨i1, i2⟩ := ih _ (AMap.nodup_set hn (p.account, p.commodity) _)
        refine ⟨i1, ?_⟩
        intro k
        rw [i2 k, AMap.get_set]
        simp only [contribSum, List.map_cons, List.sum_cons, contrib, hal, true_and]
        split
        · rename_i hk; subst hk; rw [Rat.add_assoc]
        · rw [Rat.zero_add]
      · simp only [if_neg hal]
        obtain ⟨i1, i2⟩ := ih q hn
        refine ⟨i1, ?_⟩
        intro k
        rw [i2 k]
        simp only [contribSum, List.map_cons, List.sum_cons]
        have : contrib p k = 0 := by unfold contrib; simp [hal]
        rw [this, Rat.zero_add]

theorem addQty_get : ∀ (ts : List Transaction) (q : AMap Position Rat), AMap.NodupKeys q →
    AMap.NodupKeys (Balance.addQty q ts) ∧
    ∀ k, (Balance.addQty q ts).get k 0 = q.get k 0 + contribSum (ts.flatMap (·.postings)) k := by
  intro ts
  induction ts with
  | nil => intro q hn; exact ⟨hn, by intro k; simp [Balance.addQty, contribSum, Rat.add_zero]⟩
  | cons t rest ih =>
    intro q hn
    unfold Balance.addQty
    simp only [List.foldl_cons]
    obtain ⟨p1, p2⟩ := addQty_postings t.postings q hn
    have := ih _ p1
    unfold Balance.addQty at this
    obtain ⟨i1, i2⟩ := this
    refine ⟨i1, ?_⟩
    intro k
    rw [i2 k, p2 k, List.flatMap_cons, contribSum_append, Rat.add_assoc]

/-- the link between the checker's and `Valuate`'s view of the asset/liability positions -/
structure QInv (st : BalState) : Prop where
  same : ∀ k, st.chk.quantities.get k 0 = st.vQty.get k 0
  closed : ∀ k, k.1 ∉ st.chk.accounts → st.vQty.get k 0 = 0
  nodup : AMap.NodupKeys st.vQty

theorem postingBuild_zero_quantity (cr dr : Account) (c : Commodity) (g : Rat) :
    ∀ p ∈ postingBuild cr dr c 0 g, p.quantity = 0 := by
  intro p hp
  unfold postingBuild at hp
  simp only [List.mem_cons, List.mem_nil_iff, or_false] at hp
  rcases hp with rfl | rfl <;> simp only <;> split <;> simp

theorem postingBuild_accounts (cr dr : Account) (c : Commodity) (q g : Rat) :
    ∀ a ∈ (postingBuild cr dr c q g).map (·.account), a = cr ∨ a = dr := by
  intro a ha
  unfold postingBuild at ha
  simp only [List.map_cons, List.map_nil, List.mem_cons, List.mem_nil_iff, or_false] at ha
  rcases ha with rfl | rfl <;> split <;> simp

theorem postingBuild_has_debit (cr dr : Account) (c : Commodity) (q g : Rat) :
    dr ∈ (postingBuild cr dr c q g).map (·.account) := by
  unfold postingBuild
  simp only [List.map_cons, List.map_nil, List.mem_cons, List.mem_nil_iff, or_false]
  split <;> simp

theorem qinv_step {v : Commodity} {st st' : BalState} {d : Day} {pd : ProcDay} (hq : QInv st)
    (h : processDay v st d = .ok (st', pd)) : QInv st' := by
  obtain ⟨adj, cur, hc, hadj, _, hv⟩ := processDay_parts2 h
  obtain ⟨k1, k2, k3, k4⟩ := checkDay_ok hc
  simp only at k1 k2 k3 k4
  obtain ⟨n1, n2⟩ := addQty_get (sortTxs d.transactions ++ adj) st.vQty hq.nodup
  have hadj0 : ∀ k, contribSum (adj.flatMap (·.postings)) k = 0 := by
    intro k
    apply contribSum_zero_of_quantity
    intro p hp
    obtain ⟨t, ht, hpt⟩ := List.mem_flatMap.mp hp
    obtain ⟨e, _, _, _, g, hg⟩ := hadj t ht
    rw [hg] at hpt
    exact postingBuild_zero_quantity _ _ _ _ p hpt
  have hget : ∀ k, st'.vQty.get k 0 = st.vQty.get k 0 + contribSum ((sortTxs d.transactions).flatMap (·.postings)) k := by
    intro k
    rw [hv, n2 k, List.flatMap_append, contribSum_append, hadj0 k, Rat.add_zero]
  refine ⟨?_, ?_, ?_⟩
  · intro k
    rw [k3 k, hget k, hq.same k]
  · intro k hk
    rw [hget k]
    rw [k2 k.1] at hk
    by_cases hopen : k.1 ∈ st.chk.accounts ∨ ∃ o ∈ d.openings, o.account = k.1
    · -- closed today: the checker saw all its positions at zero
      have : ¬ ∀ c ∈ d.closings, c.account ≠ k.1 := fun hall => hk ⟨hopen, hall⟩
      have : ∃ c ∈ d.closings, c.account = k.1 := by
        apply Classical.byContradiction
        intro hne
        exact this (fun c hc e => hne ⟨c, hc, e⟩)
      obtain ⟨c, hc, hck⟩ := this
      have := k4 c hc k.2
      rw [hck, hq.same] at this
      exact this
    · have h0 := hq.closed k (fun hm => hopen (Or.inl hm))
      rw [h0, Rat.zero_add]
      apply contribSum_zero_of_account
      intro p hp e
      obtain ⟨t, ht, hpt⟩ := List.mem_flatMap.mp hp
      exact hopen (e ▸ k1 t ht p hpt)
  · rw [hv]; exact n1

/-! ### open on the day of use -/

theorem openOnL_iff (os : List Open) (cs : List Close) (a : Account) (D : Int) :
    openOnL os cs a D = true ↔
      ∃ o ∈ os, o.account = a ∧ o.date ≤ D ∧ ∀ c ∈ cs, c.account = a → o.date ≤ c.date → ¬ c.date < D := by
  unfold openOnL
  simp only [List.any_eq_true, Bool.and_eq_true, decide_eq_true_eq, List.all_eq_true, Bool.not_eq_true',
    Bool.and_eq_false_imp]
  constructor
  · rintro ⟨o, ho, ⟨h1, h2⟩, h3⟩
    refine ⟨o, ho, h1, h2, ?_⟩
    intro c hc hca hoc
    have := h3 c hc ⟨hca, hoc⟩
    simpa using this
  · rintro ⟨o, ho, h1, h2, h3⟩
    refine ⟨o, ho, ⟨h1, h2⟩, ?_⟩
    intro c hc hca
    simpa using h3 c hc hca.1 hca.2

theorem openOnL_mono {os os' : List Open} {cs : List Close} {a : Account} {D : Int} (hsub : ∀ o ∈ os, o ∈ os')
    (h : openOnL os cs a D = true) : openOnL os' cs a D = true := by
  rw [openOnL_iff] at h ⊢
  obtain ⟨o, ho, h1⟩ := h
  exact ⟨o, hsub o ho, h1⟩

/-- the description `Valuate` writes is recognised -/
theorem adjDesc_built (c : Commodity) (a : Account) :
    adjDesc ("Adjust value of " ++ c ++ " in account " ++ a.name) a = true := by
  unfold adjDesc
  simp only [Bool.and_eq_true, decide_eq_true_eq, String.toList_append, List.isPrefixOf_iff_prefix, List.isSuffixOf_iff_suffix]
  refine ⟨⟨?_, ?_⟩, ?_⟩
  · simp only [List.length_append]; omega
  · exact ⟨c.toList ++ " in account ".toList ++ a.name.toList, by simp [List.append_assoc]⟩
  · exact ⟨"Adjust value of ".toList ++ c.toList, by simp [List.append_assoc]⟩

/-- the journal around the days still to be processed: `O`/`C` are all opens/closes of the journal, `lo` a lower bound
of the remaining dates; closes dated before `lo` are in the past -/
structure Env (O : List Open) (C : List Close) (lo : Int) (rest : List Day) : Prop where
  opens : ∀ d ∈ rest, ∀ o ∈ d.openings, o ∈ O
  closes : ∀ c ∈ C, c.date < lo ∨ ∃ d ∈ rest, c ∈ d.closings
  lb : ∀ d ∈ rest, lo ≤ d.date
  sorted : Sorted rest
  dates : ∀ d ∈ rest, DayDates d

/-- every account the checker holds open has an open in the past that no past close follows -/
def AccInv (accs : List Account) (O : List Open) (C : List Close) (lo : Int) : Prop :=
  ∀ a ∈ accs, ∃ o ∈ O, o.account = a ∧ o.date < lo ∧ ∀ c ∈ C, c.account = a → c.date < lo → c.date < o.date

theorem env_close_today {O : List Open} {C : List Close} {lo : Int} {d : Day} {rest : List Day}
    (env : Env O C lo (d :: rest)) (c : Close) (hc : c ∈ C) :
    c.date < lo ∨ (c ∈ d.closings ∧ c.date = d.date) ∨ d.date < c.date := by
  rcases env.closes c hc with h | ⟨d', hd', hcd⟩
  · exact Or.inl h
  · rcases List.mem_cons.mp hd' with rfl | hd'
    · exact Or.inr (Or.inl ⟨hcd, (env.dates _ List.mem_cons_self).closes c hcd⟩)
    · have h1 := (env.dates d' (List.mem_cons_of_mem _ hd')).closes c hcd
      have h2 := (List.pairwise_cons.mp env.sorted).1 d' hd'
      exact Or.inr (Or.inr (by omega))

/-- an account open while day `d` is booked is open on `d` in the sense of the ledger predicate -/
theorem acc1_open {O : List Open} {C : List Close} {lo : Int} {d : Day} {rest : List Day} {accs : List Account}
    (env : Env O C lo (d :: rest)) (inv : AccInv accs O C lo) (a : Account)
    (h : a ∈ accs ∨ ∃ o ∈ d.openings, o.account = a) : openOnL O C a d.date = true := by
  rw [openOnL_iff]
  have hlo := env.lb d List.mem_cons_self
  rcases h with h | ⟨o, ho, hoa⟩
  · obtain ⟨o, hoO, hoa, hod, hcl⟩ := inv a h
    refine ⟨o, hoO, hoa, by omega, ?_⟩
    intro c hc hca hoc hcd
    rcases env_close_today env c hc with h1 | ⟨_, h1⟩ | h1
    · have := hcl c hc hca h1; omega
    · omega
    · omega
  · have hod := (env.dates d List.mem_cons_self).opens o ho
    refine ⟨o, env.opens d List.mem_cons_self o ho, hoa, by omega, ?_⟩
    intro c _ _ hoc hcd
    omega

theorem env_step {O : List Open} {C : List Close} {lo : Int} {d : Day} {rest : List Day}
    (env : Env O C lo (d :: rest)) : Env O C (d.date + 1) rest := by
  refine ⟨fun d' hd' => env.opens d' (List.mem_cons_of_mem _ hd'), ?_, ?_, (List.pairwise_cons.mp env.sorted).2,
    fun d' hd' => env.dates d' (List.mem_cons_of_mem _ hd')⟩
  · intro c hc
    rcases env.closes c hc with h | ⟨d', hd', hcd⟩
    · have := env.lb d List.mem_cons_self; exact Or.inl (by omega)
    · rcases List.mem_cons.mp hd' with rfl | hd'
      · have := (env.dates _ List.mem_cons_self).closes c hcd; exact Or.inl (by omega)
      · exact Or.inr ⟨d', hd', hcd⟩
  · intro d' hd'
    have := (List.pairwise_cons.mp env.sorted).1 d' hd'
    omega

theorem accInv_step {O : List Open} {C : List Close} {lo : Int} {d : Day} {rest : List Day} {accs accs' : List Account}
    (env : Env O C lo (d :: rest)) (inv : AccInv accs O C lo)
    (h : ∀ a, a ∈ accs' ↔ (a ∈ accs ∨ ∃ o ∈ d.openings, o.account = a) ∧ ∀ c ∈ d.closings, c.account ≠ a) :
    AccInv accs' O C (d.date + 1) := by
  intro a ha
  obtain ⟨hopen, hnc⟩ := (h a).mp ha
  have hlo := env.lb d List.mem_cons_self
  rcases hopen with hold | ⟨o, ho, hoa⟩
  · obtain ⟨o, hoO, hoa, hod, hcl⟩ := inv a hold
    refine ⟨o, hoO, hoa, by omega, ?_⟩
    intro c hc hca hcd
    rcases env_close_today env c hc with h1 | ⟨h1, _⟩ | h1
    · exact hcl c hc hca h1
    · exact absurd hca (hnc c h1)
    · omega
  · have hod := (env.dates d List.mem_cons_self).opens o ho
    refine ⟨o, env.opens d List.mem_cons_self o ho, hoa, by omega, ?_⟩
    intro c hc hca hcd
    rcases env_close_today env c hc with h1 | ⟨h1, _⟩ | h1
    · omega
    · exact absurd hca (hnc c h1)
    · omega

/-- `Valuate` only adjusts positions of accounts the checker holds open -/
theorem qinv_position_open {st : BalState} (hq : QInv st) (e : Position × Rat) (he : e ∈ st.vQty) (hz : e.2 ≠ 0) :
    e.1.1 ∈ st.chk.accounts := by
  apply Classical.byContradiction
  intro hn
  have h0 := hq.closed e.1 hn
  have hf := AMap.find?_of_mem hq.nodup (k := e.1) (v := e.2) he
  unfold AMap.get at h0
  rw [hf] at h0
  exact hz h0

/-- **the uses of one processed day** -/
theorem day_uses {v : Commodity} {O : List Open} {C : List Close} {lo : Int} {d : Day} {rest : List Day}
    {st st' : BalState} {pd : ProcDay} (env : Env O C lo (d :: rest)) (inv : AccInv st.chk.accounts O C lo) (hq : QInv st)
    (h : processDay v st d = .ok (st', pd)) :
    ∀ t ∈ pd.transactions, ∀ a ∈ t.postings.map (·.account), openOnL O C a t.date = true ∨ adjustmentLeg t a = true := by
  obtain ⟨adj, cur, hc, hadj, hm, _⟩ := processDay_parts2 h
  obtain ⟨k1, _, _, _⟩ := checkDay_ok hc
  simp only at k1
  intro t' ht' a ha
  obtain ⟨t, ht, hv⟩ := mapM_mem _ _ _ hm t' ht'
  obtain ⟨hdate, hdesc, hacc⟩ := valueTx_keeps hv
  rw [hacc] at ha
  rcases List.mem_append.mp ht with ht | ht
  · -- a user transaction: the checker saw every posting account open
    obtain ⟨p, hp, hpa⟩ := List.mem_map.mp ha
    have hd : t.date = d.date := (env.dates d List.mem_cons_self).txs t ((mem_sortTxs _ _).mp ht)
    left
    rw [hdate, hd, ← hpa]
    exact acc1_open env inv p.account (k1 t ht p hp)
  · -- a value adjustment
    obtain ⟨e, he, hal, hz, g, hg⟩ := hadj t ht
    have hd : t.date = d.date := by rw [hg]
    rw [hg] at ha
    rcases postingBuild_accounts _ _ _ _ _ a ha with hav | hap
    · right
      unfold adjustmentLeg
      rw [List.any_eq_true]
      have : e.1.1 ∈ t'.postings.map (·.account) := by
        rw [hacc, hg]; exact postingBuild_has_debit _ _ _ _ _
      obtain ⟨q, hq', hqa⟩ := List.mem_map.mp this
      refine ⟨q, hq', ?_⟩
      simp only [Bool.and_eq_true, decide_eq_true_eq]
      rw [hqa, hdesc, hg]
      exact ⟨⟨hal, hav⟩, adjDesc_built _ _⟩
    · left
      rw [hdate, hd, hap]
      exact acc1_open env inv e.1.1 (Or.inl (qinv_position_open hq e he hz))

/-- **all uses**: every account used by a posting of the processed journal is open on the day of use, or is the
generated valuation account of a value adjustment -/
theorem uses_from {v : Commodity} (O : List Open) (C : List Close) : ∀ (rest : List Day) (st : BalState)
    (pds : List ProcDay) (lo : Int), processFrom v st rest = .ok pds → Env O C lo rest →
    AccInv st.chk.accounts O C lo → QInv st →
    ∀ pd ∈ pds, ∀ t ∈ pd.transactions, ∀ a ∈ t.postings.map (·.account),
      openOnL O C a t.date = true ∨ adjustmentLeg t a = true := by
  intro rest
  induction rest with
  | nil => intro st pds lo h _ _ _; simp only [processFrom] at h; injection h with h; subst h; intro pd hpd; cases hpd
  | cons d rest ih =>
    intro st pds lo h env inv hq
    simp only [processFrom, bind, Except.bind] at h
    cases hd : processDay v st d with
    | error e => rw [hd] at h; cases h
    | ok r =>
      obtain ⟨st1, pd⟩ := r
      rw [hd] at h; simp only at h
      cases hr : processFrom v st1 rest with
      | error e => rw [hr] at h; cases h
      | ok pds' =>
        rw [hr] at h; simp only at h
        injection h with h; subst h
        intro pd' hpd'
        rcases List.mem_cons.mp hpd' with rfl | hpd'
        · exact day_uses env inv hq hd
        · obtain ⟨_, _, hc, _, _, _⟩ := processDay_parts2 hd
          obtain ⟨_, k2, _, _⟩ := checkDay_ok hc
          simp only at k2
          exact ih st1 pds' (d.date + 1) hr (env_step env) (accInv_step env inv k2) (qinv_step hq hd) pd' hpd'

end Knut.Beancount
