package main

func extract(args []string) {
	// filled in below (facts.go)
	extractFacts(args)
}
