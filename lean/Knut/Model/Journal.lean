import Knut.Model.Core
import Knut.Basic.AMap
/-!
# Journal builder and days (`lib/journal/journal.go`: Builder, Day, Build)
-/
namespace Knut

/-- `syntax.Booking` with parsed fields -/
structure Booking where
  credit : Account
  debit : Account
  quantity : Rat
  commodity : Commodity
  deriving DecidableEq, Repr, Inhabited

/-- `transaction.Create` without an accrual annotation: every booking becomes a posting pair -/
def Transaction.ofBookings (date : Int) (desc : String) (targets : Option (List Commodity)) (bks : List Booking) : Transaction :=
  { date := date, description := desc, targets := targets,
    postings := bks.flatMap (fun b => postingBuild b.credit b.debit b.commodity b.quantity) }

structure Price where
  date : Int
  commodity : Commodity
  price : Rat
  target : Commodity
  deriving DecidableEq, Repr, Inhabited

structure Open where
  date : Int
  account : Account
  deriving DecidableEq, Repr, Inhabited

structure Close where
  date : Int
  account : Account
  deriving DecidableEq, Repr, Inhabited

structure Balance where
  account : Account
  quantity : Rat
  commodity : Commodity
  deriving DecidableEq, Repr, Inhabited

structure Assertion where
  date : Int
  balances : List Balance
  deriving DecidableEq, Repr, Inhabited

/-- `model.Directive` -/
inductive Directive where
  | price (p : Price)
  | opening (o : Open)
  | tx (t : Transaction)
  | assertion (a : Assertion)
  | closing (c : Close)
  deriving DecidableEq, Repr, Inhabited

def Directive.date : Directive → Int
  | .price p => p.date | .opening o => o.date | .tx t => t.date | .assertion a => a.date | .closing c => c.date

/-- `journal.Day` (the `Normalized` prices and `Performance` fields live in the processors' models) -/
structure Day where
  date : Int
  prices : List Price := []
  assertions : List Assertion := []
  openings : List Open := []
  transactions : List Transaction := []
  closings : List Close := []
  deriving DecidableEq, Repr, Inhabited

def Day.add (d : Day) : Directive → Day
  | .price p => { d with prices := d.prices ++ [p] }
  | .opening o => { d with openings := d.openings ++ [o] }
  | .tx t => { d with transactions := d.transactions ++ [t] }
  | .assertion a => { d with assertions := d.assertions ++ [a] }
  | .closing c => { d with closings := d.closings ++ [c] }

/-- days kept sorted by date; `Builder.Day(d)` creates a missing day -/
def insertDay (days : List Day) (date : Int) : List Day :=
  match days with
  | [] => [{ date := date }]
  | d :: rest =>
    if date < d.date then { date := date } :: d :: rest
    else if date = d.date then d :: rest
    else d :: insertDay rest date

def addToDays (days : List Day) (x : Directive) : List Day :=
  (insertDay days x.date).map (fun d => if d.date = x.date then d.add x else d)

/-- 9999-12-31, the initial `min` of the builder -/
def maxDate : Int := 3652058

/-- `journal.Builder`: days, min, max -/
structure Builder where
  days : List Day := []
  min : Int := maxDate
  max : Int := 0
  deriving Repr

/-- `Builder.Add` -/
def Builder.add (b : Builder) (x : Directive) : Builder :=
  let days := addToDays b.days x
  match x with
  | .price p => { b with days := days, max := if b.max < p.date then p.date else b.max }
  | .tx t => { days := days, max := if b.max < t.date then t.date else b.max, min := if t.date < b.min then t.date else b.min }
  | _ => { b with days := days }

def Builder.ofList (xs : List Directive) : Builder := xs.foldl Builder.add {}

/-- `Builder.Days(dates)`: make sure the given days exist -/
def Builder.ensureDays (b : Builder) (dates : List Int) : Builder :=
  { b with days := dates.foldl insertDay b.days }

/-- `Builder.Build` = days sorted by date (they are kept sorted here) -/
def Builder.build (b : Builder) : List Day := b.days

end Knut
