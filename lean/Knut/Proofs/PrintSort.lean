import Knut.Model.JournalPrinter
/-!
# `transaction.Compare` is a total preorder, so `journal.Sort` is idempotent (C09)

`cmpTx` is a lexicographic combination of `compare` on dates and strings, `account.Compare`, the comparison of decimals
and the pairwise comparison of posting lists. Each piece is an oriented, transitive comparison (`Std.TransCmp`), hence
`fun a b => cmpTx a b != .gt` is transitive and total, `sortTxs` yields a sorted list and sorting a sorted list changes
nothing.
-/
namespace Knut.JournalPrinter
open Knut Std

instance : TransCmp cmpStr := inferInstanceAs (TransCmp (compare : String → String → Ordering))

theorem cmpRat_eq (a b : Rat) : cmpRat a b = compareOfLessAndEq a b := by
  unfold cmpRat compareOfLessAndEq
  by_cases h : a < b
  · simp [h]
  · by_cases h2 : b < a
    · have : a ≠ b := by intro e; subst e; exact h h2
      simp [h, h2, this]
    · have : a = b := Rat.le_antisymm (Rat.not_lt.mp h2) (Rat.not_lt.mp h)
      simp [this, Rat.lt_irrefl]

instance : TransCmp cmpRat := by
  have : cmpRat = fun a b => compareOfLessAndEq a b := by funext a b; exact cmpRat_eq a b
  rw [this]
  exact TransOrd.compareOfLessAndEq_of_antisymm_of_trans_of_total_of_not_le
    Rat.le_antisymm Rat.le_trans (fun _ _ => Rat.le_total) Rat.not_le

def accOrd (a : Account) : Nat := (a.type?.map (·.ord)).getD 9

theorem cmpAccount_eq : cmpAccount = compareLex (compareOn accOrd) (fun a b => cmpStr a.name b.name) := by
  funext a b
  unfold cmpAccount compareLex compareOn accOrd
  simp only
  rw [Nat.compare_eq_ite_lt]
  split
  · rfl
  · split
    · rfl
    · rfl

instance : TransCmp (fun a b : Account => cmpStr a.name b.name) where
  eq_swap := OrientedCmp.eq_swap (cmp := cmpStr)
  isLE_trans := TransCmp.isLE_trans (cmp := cmpStr)

instance : TransCmp cmpAccount := by rw [cmpAccount_eq]; infer_instance

/-- a comparison after a projection -/
theorem transCmp_on {α β} (cmp : β → β → Ordering) [TransCmp cmp] (f : α → β) : TransCmp (fun a b => cmp (f a) (f b)) where
  eq_swap := OrientedCmp.eq_swap (cmp := cmp)
  isLE_trans := TransCmp.isLE_trans (cmp := cmp)

theorem cmpPosting_eq : cmpPosting =
    compareLex (fun p q => cmpAccount p.account q.account) (compareLex (fun p q => cmpAccount p.other q.other)
      (compareLex (fun p q => cmpRat p.quantity q.quantity) (compareLex (fun p q => cmpRat p.value q.value)
        (fun p q => cmpStr p.commodity q.commodity)))) := by
  funext p q; rfl

instance : TransCmp cmpPosting := by
  rw [cmpPosting_eq]
  have := transCmp_on cmpAccount Posting.account
  have := transCmp_on cmpAccount Posting.other
  have := transCmp_on cmpRat Posting.quantity
  have := transCmp_on cmpRat Posting.value
  have := transCmp_on cmpStr Posting.commodity
  infer_instance

theorem cmpPostings_eq : cmpPostings = List.compareLex cmpPosting := by
  funext a b
  induction a generalizing b with
  | nil => cases b <;> simp [cmpPostings, List.compareLex_nil_nil, List.compareLex_nil_cons]
  | cons p ps ih =>
    cases b with
    | nil => simp [cmpPostings, List.compareLex_cons_nil]
    | cons q qs => simp [cmpPostings, List.compareLex_cons_cons, ih]

instance : TransCmp cmpPostings := by rw [cmpPostings_eq]; infer_instance

theorem cmpTx_eq : cmpTx =
    compareLex (compareOn Transaction.date) (compareLex (fun t u => cmpStr t.description u.description)
      (fun t u => cmpPostings t.postings u.postings)) := by
  funext t u; rfl

instance : TransCmp cmpTx := by
  rw [cmpTx_eq]
  have := transCmp_on cmpStr Transaction.description
  have := transCmp_on cmpPostings Transaction.postings
  infer_instance

/-- the order `journal.Sort` sorts by -/
def leTx (a b : Transaction) : Bool := cmpTx a b != .gt

theorem leTx_isLE (a b : Transaction) : leTx a b = (cmpTx a b).isLE := by
  unfold leTx; cases cmpTx a b <;> rfl

theorem leTx_trans (a b c : Transaction) (h1 : leTx a b = true) (h2 : leTx b c = true) : leTx a c = true := by
  rw [leTx_isLE] at *
  exact TransCmp.isLE_trans h1 h2

theorem leTx_total (a b : Transaction) : (leTx a b || leTx b a) = true := by
  rw [leTx_isLE, leTx_isLE, OrientedCmp.eq_swap (cmp := cmpTx) (a := b) (b := a)]
  cases cmpTx a b <;> rfl

theorem sortTxs_sorted (l : List Transaction) : (sortTxs l).Pairwise (fun a b => leTx a b = true) :=
  List.pairwise_mergeSort leTx_trans leTx_total l

/-- **`journal.Sort` is idempotent** -/
theorem sortTxs_idem (l : List Transaction) : sortTxs (sortTxs l) = sortTxs l :=
  List.mergeSort_of_pairwise (sortTxs_sorted l)

end Knut.JournalPrinter
